"""C20 — C API: status-code protocol and equivalence with the C++ API.

1. translate.capi.generate(): regenerate lean/PrimitivModel/Gen/CApi.lean (one row per wrapper) and the
   harness dispatch from the tree under study (g++ -E on primitiv/c/**/*.cc).
2. obligations: Props/C20.lean (`decide` over the whole table + protocol theorems).
3. correspondence on the real library (ASan/UBSan): every wrapper x NULL / NULL-element / 0 patterns
   against the table's prediction; hand-written C-vs-C++ equivalence cases; size queries; status
   sequences; threads.
"""
import json, os, re
from vlib import build, run as vrun, lean, check as vcheck

MODS = ["PrimitivModel.Props.C20"]
U32MAX = 2 ** 32 - 1

FAIL_KINDS = {"nshape": "null:shape", "nretval": "null:retval", "ntensor": "null:tensor", "nnode": "null:node",
              "ngraph": "null:graph", "nparameter": "null:parameter", "nmodel": "null:model", "noptimizer": "null:optimizer",
              "nnewobj": "null:newobj", "nsize": "null:size", "updim": "cpp:updim", "reshape": "cpp:reshape",
              "tofloat": "cpp:tofloat", "invalid": "cpp:invalid", "slice": "cpp:slice", "matmul": "cpp:matmul",
              "nofile": "cpp:nofile", "stats": "cpp:stats"}
SUCC_KINDS = ["shape", "tensor", "dims", "volume", "node", "optimizer", "string"]
SIZEQ_FUNCS = {"primitivGetMessage": 1, "primitivGetShapeDims": 0, "primitivRepresentShapeAsString": 1,
               "primitivEvaluateTensorAsArray": 0, "primitivGetTensorArgmax": 0, "primitivGetTensorArgmin": 0,
               "primitivEvaluateNodeAsArray": 0, "primitivGetNodeArgmax": 0, "primitivGetNodeArgmin": 0, "primitivDumpGraph": 1}
REQUIRED_ROLES = {"inHandle", "outHandle", "outHandleArray", "outScalar", "sizeInOut", "inArray", "inRaw", "inStringArray",
                  "inHandleArray", "inString"}
ARRAY_ROLES = {"inHandleArray", "inStringArray"}

# functions exercised inside a scenario registered under another name (see harness/h_capi.cc)
SCENARIO_COVERS = {
    "primitivExecuteGraphBackward": ["primitivCreateGraph", "primitivDeleteGraph", "primitivApplyNodeInput", "primitivApplyNodeParameter",
                                     "primitivGetGraphNumOperators", "primitivGetNodeOperatorId", "primitivGetNodeValueId", "primitivGetGraphShape",
                                     "primitivGetNodeShape", "primitivGetGraphFromNode", "primitivGetDeviceFromNode", "primitivGetDeviceFromGraph",
                                     "primitivIsValidNode", "primitivExecuteGraphForward", "primitivEvaluateNodeAsFloat", "primitivEvaluateNodeAsArray",
                                     "primitivGetNodeArgmax", "primitivGetNodeArgmin", "primitivCloneNode", "primitivDeleteNode",
                                     "primitivResetParameterGradients", "primitivExecuteNodeBackward", "primitivDumpGraph", "primitivClearGraph"],
    "primitivCreateNode": ["primitivIsValidNode", "primitivDeleteNode"],
    "primitivGetNodeShape": ["primitivEvaluateNodeAsFloat", "primitivGetNodeOperatorId", "primitivGetGraphFromNode", "primitivExecuteNodeBackward"],
    "primitivCreateParameter": ["primitivIsValidParameter", "primitivDeleteParameter"],
    "primitivApplyTensorParameter": ["primitivApplyNodeParameter"],
    "primitivCreateParameterWithValues": ["primitivDeleteParameter"],
    "INIT": ["primitivCreateParameterWithInitializer", "primitivInitializeParameterWithInitializer", "primitivApplyInitializer",
             "primitivDeleteInitializer", "primitivDeleteParameter"],
    "primitivAddStatsToParameter": ["primitivHasParameterStats", "primitivGetParameterValue", "primitivGetParameterGradient",
                                    "primitivGetParameterShape", "primitivGetDeviceFromParameter", "primitivResetParameterGradients",
                                    "primitivIsValidParameter"],
    "primitivSaveParameter": ["primitivLoadParameter"],
    "primitivAddParameterToModel": ["primitivAddSubmodelToModel", "primitivGetParameterFromModel", "primitivGetSubmodelFromModel", "primitivSaveModel",
                                    "primitivLoadModel"],
    "primitivCreateModel": ["primitivDeleteModel", "primitivGetParameterFromModel"],
    "OPT": ["primitivSetOptimizerEpoch", "primitivGetOptimizerEpoch", "primitivSetOptimizerLearningRateScaling",
            "primitivGetOptimizerLearningRateScaling", "primitivSetOptimizerWeightDecay", "primitivGetOptimizerWeightDecay",
            "primitivSetOptimizerGradientClipping", "primitivGetOptimizerGradientClipping", "primitivSetOptimizerIntConfig",
            "primitivSetOptimizerFloatConfig", "primitivGetOptimizerIntConfig", "primitivGetOptimizerFloatConfig", "primitivAddParameterToOptimizer",
            "primitivAddParametersToOptimizer", "primitivAddModelToOptimizer", "primitivAddModelsToOptimizer", "primitivResetOptimizerGradients",
            "primitivExecuteOptimizerUpdate", "primitivSaveOptimizer", "primitivLoadOptimizer", "primitivDeleteOptimizer"],
    "primitivCreateNaiveDeviceWithSeed": ["primitivCreateNaiveDevice", "primitivCreateEigenDevice", "primitivCreateEigenDeviceWithSeed",
                                          "primitivSetDefaultDevice", "primitivGetDefaultDevice", "primitivDeleteDevice", "primitivApplyTensorOnes",
                                          "primitivApplyTensorRandomUniform"],
    "primitivResetStatus": ["primitivGetMessage", "primitivUpdateShapeDim", "primitivGetShapeDepth"],
    "primitivSetDefaultGraph": ["primitivGetDefaultGraph"],
    "ALLSHAPE": ["primitivDeleteShape"], "ALLTENSOR": ["primitivDeleteTensor"],
}
OPT_NAMES = ["primitivCreateSgdOptimizer", "primitivCreateMomentumSgdOptimizer", "primitivCreateAdaGradOptimizer",
             "primitivCreateRmsPropOptimizer", "primitivCreateAdaDeltaOptimizer", "primitivCreateAdamOptimizer"]
INIT_NAMES = ["primitivCreateConstantInitializer", "primitivCreateUniformInitializer", "primitivCreateNormalInitializer",
              "primitivCreateIdentityInitializer", "primitivCreateXavierUniformInitializer", "primitivCreateXavierNormalInitializer",
              "primitivCreateXavierUniformConv2DInitializer", "primitivCreateXavierNormalConv2DInitializer"]
OPT_KEYS = ["Optimizer.epoch", "Optimizer.lr_scale", "Optimizer.l2_strength", "Optimizer.clip_threshold", "SGD.eta", "MomentumSGD.eta",
            "MomentumSGD.momentum", "AdaGrad.eta", "AdaGrad.eps", "RMSProp.alpha", "AdaDelta.rho", "Adam.alpha", "Adam.beta1", "no.such.key"]


# ------------------------------------------------------------------ mechanical call lines

def is_value(p):
    return p["depth"] == 0


def call_lines(table, tier):
    """(line, meta) for every wrapper: all valid, each single NULL, each single NULL element, zeros;
    thorough: pairs of NULLs, all-ones values, NULL + zero."""
    out = []
    for w in table:
        ps = w["params"]
        if w["unsupported"] and any(p["role"] in ("unknown", "unused") for p in ps) or not w["declared"]:
            continue
        n = len(ps)
        base = ["v"] * n

        def emit(pat):
            out.append("call %s %s" % (w["name"], ",".join(pat) if pat else "-"))
        emit(base)
        ptrs = [i for i, p in enumerate(ps) if not is_value(p)]
        vals = [i for i, p in enumerate(ps) if is_value(p)]
        for i in ptrs:
            q = list(base); q[i] = "N"; emit(q)
            if ps[i]["role"] in ARRAY_ROLES:
                q = list(base); q[i] = "E"; emit(q)
        if vals:
            q = list(base)
            for i in vals:
                q[i] = "z"
            emit(q)
            if len(vals) > 1:
                for i in vals:
                    q = list(base); q[i] = "z"; emit(q)
        if tier != "quick":
            for a in range(len(ptrs)):
                for b in range(a + 1, len(ptrs)):
                    q = list(base); q[ptrs[a]] = "N"; q[ptrs[b]] = "N"; emit(q)
            nc = [i for i in vals if ps[i]["role"] != "count"]
            for i in nc:
                q = list(base); q[i] = "m"; emit(q)
            if len(nc) > 1:
                q = list(base)
                for i in nc:
                    q[i] = "m"
                emit(q)
            for i in ptrs:
                if vals:
                    q = list(base); q[i] = "N"
                    for j in vals:
                        q[j] = "z"
                    emit(q)
            for i in ptrs:
                if ps[i]["role"] in ARRAY_ROLES:
                    for j in ptrs:
                        if j != i:
                            q = list(base); q[i] = "E"; q[j] = "N"; emit(q)
    return out


# ------------------------------------------------------------------ equivalence lines

def rshape(rng, maxd=3, batch=True):
    d = rng.choice([0, 1, 1, 2, 2, 2, 3][:maxd * 2 + 1])
    dims = [rng.choice([1, 2, 2, 3, 3, 4]) for _ in range(d)]
    b = rng.choice([1, 1, 1, 2, 3]) if batch else 1
    return dims, b


def stok(dims, b):
    return "S:%s/%d" % (",".join(map(str, dims)), b)


def vals(rng, k=4):
    pool = ["0", "1", "-1", "2", "0.5", "-2", "3", "-0.25", "4", "1.5"]
    return ",".join(rng.choice(pool) for _ in range(k))


def ttok(rng, dims, b):
    return "T:%s/%d:%s" % (",".join(map(str, dims)), b, vals(rng, rng.choice([1, 3, 4, 7])))


def rdim(rng, depth):
    r = rng.random()
    if r < 0.7:
        return rng.randrange(0, depth + 1)
    if r < 0.85:
        return rng.choice([depth + 1, 7, 8])
    return rng.choice([U32MAX, 2 ** 31, 9])


def rfloat(rng):
    return "F:" + rng.choice(["0", "1", "-1", "0.5", "2", "-0.25", "3", "1e-3", "0.125"])


def ru32(rng, near=(0, 1, 2, 3)):
    r = rng.random()
    if r < 0.8:
        return rng.choice(list(near))
    return rng.choice([0, U32MAX, 2 ** 31, 65536])


UNARY = ["Positive", "Negative", "Flatten", "Transpose", "Abs", "Sqrt", "Exp", "Log", "Tanh", "Sigmoid", "Softplus", "Sin", "Cos", "Tan",
         "Relu", "Lrelu", "StopGradient", "Selu", "BatchSum", "BatchMean", "BatchNormalize"]
BINARY = ["Add", "Subtract", "Multiply", "Divide", "Pow"]
DIMF = ["Flip", "Max", "Min", "Sum", "Logsumexp", "LogSoftmax", "Softmax", "Mean"]


def eq_generators():
    """name of the eq case -> function(rng) -> argument string"""
    G = {}

    def both(name, f):
        G["primitivApplyTensor" + name] = f
        G["primitivApplyNode" + name] = f

    def one(rng):
        d, b = rshape(rng)
        if rng.random() < 0.1:
            d = [2, 2, 2]
        return ttok(rng, d, b)

    def two(rng):
        d, b = rshape(rng)
        r = rng.random()
        d2, b2 = list(d), b
        if r < 0.15:
            b2 = rng.choice([1, 2, 3])
        elif r < 0.25:
            d2 = d + [2]
        elif r < 0.35:
            d2 = []
        return ttok(rng, d, b) + " " + ttok(rng, d2, b2)
    for u in UNARY:
        both(u, one)
    for bn in BINARY:
        both(bn + "XC", lambda rng: one(rng) + " " + rfloat(rng))
        both(bn + "CX", lambda rng: one(rng) + " " + rfloat(rng))
        both(bn, two)

    def matmul(rng):
        a, b, c = rng.choice([1, 2, 3]), rng.choice([1, 2, 3]), rng.choice([1, 2, 3])
        b2 = b if rng.random() < 0.8 else b + 1
        return ttok(rng, [a, b], rng.choice([1, 2])) + " " + ttok(rng, [b2, c], 1)
    both("Matmul", matmul)
    both("PowN", lambda rng: one(rng) + " %d" % rng.choice([-3, -1, 0, 1, 2, 3, 2 ** 31 - 1, -2 ** 31]))
    for dn in DIMF:
        both(dn, lambda rng: (lambda d, b: ttok(rng, d, b) + " %d" % rdim(rng, len(d)))(*rshape(rng)))
    both("Prelu", lambda rng: one(rng) + " " + rfloat(rng))
    both("Elu", lambda rng: one(rng) + " " + rfloat(rng))

    def slice_(rng):
        d, b = rshape(rng)
        dim = rdim(rng, len(d))
        n = d[dim] if dim < len(d) else 1
        lo = ru32(rng, (0, 0, 1, n - 1 if n else 0))
        up = ru32(rng, (n, n, lo + 1, n + 1, lo))
        return "%s %d %d %d" % (ttok(rng, d, b), dim, lo, up)
    both("Slice", slice_)

    def broadcast(rng):
        d, b = rshape(rng)
        dim = rdim(rng, len(d))
        if dim < len(d) and rng.random() < 0.8:
            d[dim] = 1
        return "%s %d %d" % (ttok(rng, d, b), dim, ru32(rng, (1, 2, 3, 0)))
    both("Broadcast", broadcast)
    both("BatchSlice", lambda rng: (lambda d, b: "%s %d %d" % (ttok(rng, d, b), ru32(rng, (0, 0, 1)), ru32(rng, (b, b, 1, b + 1))))(*rshape(rng)))

    def pick(rng):
        d, b = rshape(rng)
        dim = rdim(rng, len(d))
        n = d[dim] if dim < len(d) else 1
        k = rng.choice([0, 1, b, b, 2])
        ids = [ru32(rng, (0, n - 1, n)) for _ in range(k)]
        return "%s L:%s %d" % (ttok(rng, d, b), ",".join(map(str, ids)), dim)
    both("Pick", pick)
    both("BatchPick", lambda rng: (lambda d, b: "%s L:%s" % (ttok(rng, d, b), ",".join(str(ru32(rng, (0, b - 1, b))) for _ in range(rng.choice([0, 1, 2, 3])))))(*rshape(rng)))

    def permute(rng):
        d, b = rshape(rng)
        perm = list(range(len(d) + rng.choice([0, 0, 0, 1])))
        rng.shuffle(perm)
        if perm and rng.random() < 0.15:
            perm[0] = rng.choice([len(perm), U32MAX])
        return "%s L:%s" % (ttok(rng, d, b), ",".join(map(str, perm)))
    both("PermuteDims", permute)

    def reshape(rng):
        d, b = rshape(rng)
        d2 = list(d)
        rng.shuffle(d2)
        if rng.random() < 0.2:
            d2 = d2 + [2]
        return "%s %s" % (ttok(rng, d, b), stok(d2, rng.choice([b, b, 1])))
    both("Reshape", reshape)
    both("SoftmaxCrossEntropy", lambda rng: two(rng) + " %d" % rng.choice([0, 0, 1, 8]))

    def sce_arr(rng):
        d, b = rshape(rng)
        dim = rng.choice([0, 0, 1])
        n = d[dim] if dim < len(d) else 1
        ids = [ru32(rng, (0, n - 1, n)) for _ in range(rng.choice([1, b, b, 0]))]
        return "%s L:%s %d" % (ttok(rng, d, b), ",".join(map(str, ids)), dim)
    both("SoftmaxCrossEntropyWithArray", sce_arr)

    def conv(rng):
        x = [rng.choice([2, 3, 4]), rng.choice([2, 3, 4]), rng.choice([1, 2])]
        w = [rng.choice([1, 2]), rng.choice([1, 2]), x[2] if rng.random() < 0.9 else x[2] + 1, rng.choice([1, 2])]
        ns = [ru32(rng, (0, 1)), ru32(rng, (0, 1)), ru32(rng, (1, 1, 2, 0)), ru32(rng, (1, 2)), ru32(rng, (1, 1, 2, 0)), ru32(rng, (1, 2))]
        return "%s %s %s" % (ttok(rng, x, rng.choice([1, 2])), ttok(rng, w, 1), " ".join(map(str, ns)))
    both("Conv2d", conv)

    def pool(rng):
        x = [rng.choice([2, 3, 4]), rng.choice([2, 3, 4]), rng.choice([1, 2])]
        ns = [ru32(rng, (1, 2, 0)), ru32(rng, (1, 2)), ru32(rng, (0, 1)), ru32(rng, (0, 1)), ru32(rng, (1, 2, 0)), ru32(rng, (1, 2))]
        for i in (0, 1):
            # a window of 2^31 inside a padding of 2^32 - 1 is admissible and makes every output element scan billions of
            # (padding) positions: a run of hours, reported as a timeout (seen in a thorough run on the unchanged tree).
            # A huge window therefore comes with a small padding (and is rejected), a huge padding with a small window.
            if ns[i] > 64 and ns[2 + i] > 64:
                ns[2 + i] = rng.choice([0, 1])
        return "%s %s" % (ttok(rng, x, rng.choice([1, 2])), " ".join(map(str, ns)))
    both("MaxPool2d", pool)
    both("Dropout", lambda rng: one(rng) + " " + rfloat(rng))

    def lst(with_dim):
        def f(rng):
            d, b = rshape(rng)
            k = rng.choice([0, 1, 2, 3])
            ts = []
            for _ in range(k):
                d2 = list(d)
                if d2 and rng.random() < 0.2:
                    d2[rng.randrange(len(d2))] = rng.choice([1, 2, 3])
                ts.append(ttok(rng, d2, rng.choice([b, b, 1])))
            return " ".join(ts) + (" %d" % rdim(rng, len(d)) if with_dim else "")
        return f
    both("Concat", lst(True))
    both("BatchConcat", lst(False))
    G["primitivApplyTensorSumTensors"] = G["primitivApplyNodeSumNodes"] = lst(False)
    G["primitivApplyTensorMeanTensors"] = G["primitivApplyNodeMeanNodes"] = lst(False)

    def split(rng):
        d, b = rshape(rng)
        dim = rdim(rng, len(d))
        n = d[dim] if dim < len(d) else 1
        return "%s %d %d" % (ttok(rng, d, b), dim, rng.choice([n, n, 1, 2, 0, 3]))
    both("Split", split)
    both("BatchSplit", lambda rng: (lambda d, b: "%s %d" % (ttok(rng, d, b), rng.choice([b, b, 1, 2, 0])))(*rshape(rng)))

    def input_(rng):
        d, b = rshape(rng)
        return "%s %s %d %d" % (stok(d, b), ttok(rng, d, b), rng.choice([0, 0, 0, 1]), rng.choice([0, 1]))
    both("Input", input_)
    both("Constant", lambda rng: "%s %s %d" % (stok(*rshape(rng)), rfloat(rng), rng.choice([0, 1])))
    both("Identity", lambda rng: "%d %d" % (ru32(rng, (0, 1, 2, 3)), rng.choice([0, 1])))
    both("Zeros", lambda rng: "%s %d" % (stok(*rshape(rng)), rng.choice([0, 1])))
    both("Ones", lambda rng: "%s %d" % (stok(*rshape(rng)), rng.choice([0, 1])))
    both("Copy", lambda rng: "%s %d" % (one(rng), rng.choice([0, 1])))
    both("RandomBernoulli", lambda rng: "%s F:%s %d" % (stok(*rshape(rng)), rng.choice(["0", "0.5", "1", "2", "-1"]), rng.randrange(1000)))
    for nm in ("Uniform", "Normal", "LogNormal", "Gumbel"):
        both("Random" + nm, lambda rng: "%s F:%s F:%s %d" % (stok(*rshape(rng)), rng.choice(["0", "-1", "1", "2"]), rng.choice(["1", "2", "0", "-1"]), rng.randrange(1000)))

    # shapes
    def S(rng):
        return stok(*rshape(rng, 4))

    def rawdims(rng):
        k = rng.choice([0, 1, 2, 3, 8, 9])
        return "L:" + ",".join(str(ru32(rng, (1, 2, 3, 1, 2))) for _ in range(k))
    G["primitivCreateShape"] = lambda rng: ""
    G["primitivCreateShapeWithDims"] = lambda rng: "%s %d" % (rawdims(rng), ru32(rng, (1, 2, 3)))
    G["primitivCloneShape"] = S
    for nm in ("Depth", "BatchSize", "Volume", "Size", "Dims"):
        G["primitivGetShape" + nm] = S
    G["primitivRepresentShapeAsString"] = S
    G["primitivGetShapeDimSize"] = lambda rng: "%s %d" % (S(rng), rdim(rng, 3))
    G["primitivGetShapeLowerVolume"] = lambda rng: "%s %d" % (S(rng), rdim(rng, 3))

    def S2(rng):
        d, b = rshape(rng, 4)
        d2, b2 = list(d), b
        r = rng.random()
        if r < 0.3 and d2:
            d2[rng.randrange(len(d2))] = rng.choice([1, 2, 3])
        elif r < 0.45:
            b2 = rng.choice([1, 2, 3])
        elif r < 0.55:
            d2 = d2 + [2]
        return stok(d, b) + " " + stok(d2, b2)
    for nm in ("primitivIsShapeEqualTo", "primitivIsNotShapeEqualTo", "primitivHasShapeCompatibleBatch", "primitivHasShapeSameDims"):
        G[nm] = S2
    G["primitivHasShapeSameLooDims"] = lambda rng: "%s %d" % (S2(rng), rdim(rng, 3))
    for nm in ("primitivHasShapeBatch", "primitivIsShapeScalar", "primitivIsShapeColumnVector", "primitivIsShapeMatrix"):
        G[nm] = S
    G["primitivResizeShapeDim"] = lambda rng: "%s %d %d" % (S(rng), rdim(rng, 3), ru32(rng, (1, 2, 3, 0)))
    G["primitivUpdateShapeDim"] = G["primitivResizeShapeDim"]
    G["primitivResizeShapeBatch"] = lambda rng: "%s %d" % (S(rng), ru32(rng, (1, 2, 3, 0)))
    G["primitivUpdateShapeBatchSize"] = G["primitivResizeShapeBatch"]

    # tensor objects (-7 as the last number = the invalid tensor)
    def inv(rng):
        return " -7" if rng.random() < 0.12 else ""
    G["primitivCreateTensor"] = lambda rng: ""
    for nm in ("primitivCloneTensor", "primitivIsValidTensor", "primitivGetTensorShape", "primitivGetDeviceFromTensor", "primitivEvaluateTensorAsArray",
               "primitivFlattenTensor"):
        G[nm] = lambda rng: one(rng) + inv(rng)
    G["primitivEvaluateTensorAsFloat"] = lambda rng: (ttok(rng, [], 1) if rng.random() < 0.6 else one(rng)) + inv(rng)
    G["primitivGetTensorArgmax"] = lambda rng: (lambda d, b: ttok(rng, d, b) + " %d" % rdim(rng, len(d)))(*rshape(rng)) + inv(rng)
    G["primitivGetTensorArgmin"] = G["primitivGetTensorArgmax"]
    G["primitivReshapeTensor"] = lambda rng: reshape(rng) + inv(rng)
    G["primitivResetTensor"] = lambda rng: one(rng) + " " + rfloat(rng) + inv(rng)
    G["primitivMultiplyTensorByConstantInplace"] = G["primitivResetTensor"]
    G["primitivResetTensorByArray"] = lambda rng: (lambda d, b: ttok(rng, d, b) + " " + ttok(rng, d, b))(*rshape(rng)) + inv(rng)
    G["primitivAddTensorInplace"] = lambda rng: two(rng) + inv(rng)
    G["primitivSubtractTensorInplace"] = G["primitivAddTensorInplace"]

    # graphs / nodes
    G["primitivExecuteGraphBackward"] = lambda rng: "%s %s %d" % (one(rng), rfloat(rng), rng.choice([0, 1]))
    G["primitivCreateNode"] = lambda rng: ""
    G["primitivGetNodeShape"] = lambda rng: ""
    G["primitivSetDefaultGraph"] = lambda rng: ""
    G["primitivGetDefaultGraph"] = lambda rng: ""

    # parameters, models, initializers, optimizers, devices, status
    G["primitivCreateParameter"] = lambda rng: ""

    def pvalues(rng):
        d, b = rshape(rng, 3, batch=rng.random() < 0.15)
        return "%s %s %d %d" % (stok(d, b), ttok(rng, d, b), rng.choice([0, 0, 0, 1]), rng.choice([0, 1]))
    G["primitivCreateParameterWithValues"] = pvalues
    G["primitivInitializeParameterWithValues"] = pvalues
    for nm in INIT_NAMES:
        G[nm] = lambda rng: "%s %s %s %d %d" % (stok(*rshape(rng, 4, batch=rng.random() < 0.1)) if rng.random() < 0.7 else stok([3, 3], 1),
                                             rfloat(rng), rfloat(rng), rng.randrange(1000), rng.choice([0, 1]))
    G["primitivAddStatsToParameter"] = lambda rng: (lambda d: "%s %s s:%s %s" % (stok(d, 1), ttok(rng, d, 1), rng.choice(["m", "v", "x.y", "no-such-stats"]),
                                                                              stok(*rshape(rng))))(rshape(rng, 3)[0]) + inv(rng)
    G["primitivApplyTensorParameter"] = lambda rng: (lambda d: "%s %s %d" % (stok(d, 1), ttok(rng, d, 1), rng.choice([0, 1])))(rshape(rng, 3)[0]) + inv(rng)
    G["primitivGetParameterStats"] = lambda rng: (lambda d: "%s %s s:%s" % (stok(d, 1), ttok(rng, d, 1), rng.choice(["present", "no-such-stats", "m", "x.y"])))(rshape(rng, 3)[0])
    # with_stats is a PRIMITIV_C_BOOL: zero / non-zero, not 0 / 1
    G["primitivSaveParameter"] = lambda rng: (lambda d: "%s %s %d %d" % (stok(d, 1), ttok(rng, d, 1), rng.choice([0, 1, 2, 256, 2147483648, U32MAX]), rng.choice([0, 1])))(rshape(rng, 3)[0]) + inv(rng)
    G["primitivAddParameterToModel"] = lambda rng: "s:%s s:%s" % (rng.choice(["a", "p", "w.x", "q"]), rng.choice(["a", "b", "sub", "q"]))
    G["primitivCreateModel"] = lambda rng: ""
    for nm in OPT_NAMES:
        G[nm] = lambda rng: "%s %s %d %s %s %s s:%s %d %s %d" % (
            rfloat(rng), rfloat(rng), ru32(rng, (0, 1, 5)), rfloat(rng), rfloat(rng), rfloat(rng), rng.choice(OPT_KEYS),
            ru32(rng, (0, 0, 1, 7)), rng.choice(["F:0", "F:0", "F:0.5", "F:2"]), rng.randrange(3))
    G["primitivCreateNaiveDeviceWithSeed"] = lambda rng: "%d %d %d" % (ru32(rng, (0, 1, 12345)), rng.choice([0, 1]), rng.choice([0, 1]))
    G["primitivResetStatus"] = lambda rng: ""
    return G


X652 = "T:6,5,2/2:1,-2,3,0.5,-1,2,4"
W2222 = "T:2,2,2,2/1:1,-1,2,0.5,3"
M34 = "T:3,4/2:1,5,-2,7,0.5,3,-4"


def fixed_eq_lines():
    """Always run: boundary by-value arguments (seeds, epochs, axes / ids / sizes 0 and 2^32-1) and anisotropic
    values for the wrappers with several same-typed by-value arguments (an exchange of two of them changes the result)."""
    out = []
    for seed in (0, U32MAX, 1, 2 ** 31):
        for eigen in (0, 1):
            out.append("eq primitivCreateNaiveDeviceWithSeed %d %d 1" % (seed, eigen))
    out.append("eq primitivCreateNaiveDeviceWithSeed 0 0 0")
    out.append("eq primitivCreateNaiveDeviceWithSeed 0 1 0")
    for k, nm in enumerate(OPT_NAMES):
        for epoch, iv in ((0, 0), (U32MAX, U32MAX), (0, U32MAX), (U32MAX, 0)):
            out.append("eq %s F:0.5 F:0.25 %d F:1 F:0 F:0 s:Optimizer.epoch %d F:0 2" % (nm, epoch, iv))
        out.append("eq %s F:0 F:0 0 F:0 F:0 F:0 s:Optimizer.lr_scale 0 F:0 0" % nm)
    # every accessor / in-place operation of a Tensor object once on the invalid tensor (-7) and once on a valid one
    for nm in ("primitivCloneTensor", "primitivIsValidTensor", "primitivGetTensorShape", "primitivGetDeviceFromTensor",
               "primitivEvaluateTensorAsArray", "primitivFlattenTensor", "primitivEvaluateTensorAsFloat"):
        out.append("eq %s T:2,2/1:1,2,3,4 -7" % nm)
        out.append("eq %s T:/1:5" % nm)
    for nm in ("primitivGetTensorArgmax", "primitivGetTensorArgmin"):
        out.append("eq %s T:2,2/1:1,2,3,4 0 -7" % nm)
    for nm in ("primitivResetTensor", "primitivMultiplyTensorByConstantInplace"):
        out.append("eq %s T:2/1:1,2 F:2 -7" % nm)
    # caller arrays shorter than the (batched) shape needs: by one element, by one sample, all but one sample
    for V in ("Tensor", "Node"):
        for short in (1, 6, 18, 23):
            out.append("eq primitivApply%sInput S:2,3/4 T:2,3/4:1 %d %d" % (V, short, short % 2))
        out.append("eq primitivApply%sInput S:2/2 T:2/2:1 1 1" % V)
        out.append("eq primitivApply%sInput S:2/2 T:2/2:1 2 0" % V)
    for V in ("Tensor", "Node"):
        P = "primitivApply" + V
        # anisotropic: padding (1,0) stride (1,2) dilation (2,1) and the mirror image
        out.append("eq %sConv2d %s %s 1 0 1 2 2 1" % (P, X652, W2222))
        out.append("eq %sConv2d %s %s 0 1 2 1 1 2" % (P, X652, W2222))
        out.append("eq %sConv2d %s %s 0 0 1 1 1 1" % (P, X652, W2222))
        out.append("eq %sConv2d %s %s 0 0 0 1 1 1" % (P, X652, W2222))
        out.append("eq %sConv2d %s %s 0 0 1 1 1 0" % (P, X652, W2222))
        out.append("eq %sMaxPool2d %s 3 2 1 0 2 1" % (P, X652))
        out.append("eq %sMaxPool2d %s 2 3 0 1 1 2" % (P, X652))
        out.append("eq %sMaxPool2d %s 1 1 0 0 1 1" % (P, X652))
        out.append("eq %sMaxPool2d %s 0 1 0 0 1 1" % (P, X652))
        out.append("eq %sMaxPool2d %s 2 2 0 0 1 0" % (P, X652))
        out.append("eq %sSlice %s 1 1 3" % (P, M34))
        out.append("eq %sSlice %s 0 0 2" % (P, M34))
        out.append("eq %sSlice %s 0 0 0" % (P, M34))
        out.append("eq %sSlice %s 1 3 1" % (P, M34))
        out.append("eq %sSlice %s %d 0 1" % (P, M34, U32MAX))
        out.append("eq %sPick %s L:2,0 1" % (P, M34))
        out.append("eq %sPick %s L:1 0" % (P, M34))
        out.append("eq %sPick %s L:0,0 0" % (P, M34))
        out.append("eq %sPick %s L:0 %d" % (P, M34, U32MAX))
        out.append("eq %sPick %s L:%d 0" % (P, M34, U32MAX))
        out.append("eq %sBatchPick %s L:0" % (P, M34))
        out.append("eq %sBatchPick %s L:1,0,1" % (P, M34))
        out.append("eq %sBatchSlice T:2/4:1,2,3 1 3" % P)
        out.append("eq %sBatchSlice T:2/4:1,2,3 0 0" % P)
        out.append("eq %sBroadcast T:1,3/1:1,2,3 0 4" % P)
        out.append("eq %sBroadcast T:1,3/1:1,2,3 0 0" % P)
        out.append("eq %sBroadcast T:3,1/1:1,2,3 1 2" % P)
        out.append("eq %sSplit T:4,2/1:1,2,3 0 2" % P)
        out.append("eq %sSplit T:4,2/1:1,2,3 1 2" % P)
        out.append("eq %sSplit T:4,2/1:1,2,3 0 0" % P)
        out.append("eq %sBatchSplit T:2/4:1,2,3 2" % P)
        out.append("eq %sBatchSplit T:2/4:1,2,3 0" % P)
        out.append("eq %sIdentity 0 0" % P)
        out.append("eq %sIdentity %d 0" % (P, U32MAX))
        out.append("eq %sPowN %s 0" % (P, M34))
        out.append("eq %sPermuteDims %s L:1,0" % (P, M34))
        out.append("eq %sSoftmaxCrossEntropyWithArray %s L:0,2 0" % (P, M34))
        out.append("eq %sSoftmaxCrossEntropyWithArray %s L:0,2 1" % (P, M34))
        for f in DIMF:
            out.append("eq %s%s %s 0" % (P, f, M34))
            out.append("eq %s%s %s 1" % (P, f, M34))
    out += ["eq primitivGetShapeDimSize S:2,3/4 0", "eq primitivGetShapeDimSize S:2,3/4 %d" % U32MAX, "eq primitivGetShapeLowerVolume S:2,3/4 0",
            "eq primitivResizeShapeDim S:2,3/1 1 5", "eq primitivResizeShapeDim S:2,3/1 5 1", "eq primitivResizeShapeDim S:2,3/1 0 0",
            "eq primitivUpdateShapeDim S:2,3/1 1 5", "eq primitivUpdateShapeDim S:2,3/1 5 1", "eq primitivResizeShapeBatch S:2,3/1 0",
            "eq primitivResizeShapeBatch S:2,3/1 %d" % U32MAX, "eq primitivUpdateShapeBatchSize S:2,3/1 0",
            "eq primitivHasShapeSameLooDims S:2,3/1 S:2,4/1 1", "eq primitivHasShapeSameLooDims S:2,3/1 S:2,4/1 0",
            "eq primitivCreateShapeWithDims L:0 1", "eq primitivCreateShapeWithDims L:2,3 0", "eq primitivCreateShapeWithDims L: 1",
            "eq primitivGetTensorArgmax %s 0" % M34, "eq primitivGetTensorArgmax %s 1" % M34, "eq primitivGetTensorArgmin %s 2" % M34,
            "eq primitivGetParameterStats S:2,2/1 T:2,2/1:1,2 s:no-such-stats", "eq primitivGetParameterStats S:2,2/1 T:2,2/1:1,2 s:present"]
    return out


def sizeq_fixtures(rng, quick):
    """(function, fixture tail) for the array-returning functions on minibatched tensors / nodes: batch 2..4, axes 0..depth+1"""
    out = []
    shapes = [([3], 2), ([2, 3], 3), ([2, 1, 2], 4), ([], 2), ([4, 2], 4)]
    for dims, b in shapes:
        t = "T:%s/%d:%s" % (",".join(map(str, dims)), b, vals(rng, 5))
        for fn in ("primitivGetTensorArgmax", "primitivGetTensorArgmin", "primitivGetNodeArgmax", "primitivGetNodeArgmin"):
            for dim in range(0, len(dims) + 2):
                out.append((fn, "%s %d" % (t, dim)))
        for fn in ("primitivEvaluateTensorAsArray", "primitivEvaluateNodeAsArray", "primitivGetShapeDims", "primitivRepresentShapeAsString"):
            out.append((fn, "%s 0" % t))
    if quick:
        rng.shuffle(out)
        out = out[:24]
    return out


def eq_lines(rng, per_case):
    G = eq_generators()
    out = []
    for name in sorted(G):
        seen = set()
        k = per_case if G[name](rng) != "" else 1
        for _ in range(k * 3):
            a = G[name](rng)
            l = ("eq %s %s" % (name, a)).strip()
            if l not in seen:
                seen.add(l)
                out.append(l)
            if len(seen) >= k:
                break
    return out


def covered_by_eq():
    G = eq_generators()
    cov = set(G)
    for k, v in SCENARIO_COVERS.items():
        cov.update(v)
    return cov


# ------------------------------------------------------------------ status streams

def status_streams(rng, table, n_streams, n_ops, threads):
    null_calls = []
    for w in table:
        ps = w["params"]
        checked = {u["param"] for u in w["uses"] if u["kind"] == "check"}
        for i in sorted(checked):
            if ps[i]["depth"] > 0 and w["declared"] and not w["unsupported"]:
                q = ["v"] * len(ps); q[i] = "N"
                null_calls.append("call %s %s" % (w["name"], ",".join(q)))
    fails = sorted(FAIL_KINDS)
    streams = []
    for s in range(n_streams):
        ops = ["st getmsg"]
        for _ in range(n_ops):
            r = rng.random()
            if r < 0.22:
                ops.append("st fail " + rng.choice(fails))
            elif r < 0.40:
                ops.append(rng.choice(null_calls))
            elif r < 0.58:
                ops.append("st succ " + rng.choice(SUCC_KINDS))
            elif r < 0.68:
                ops.append("st reset")
            elif r < 0.72 and threads:
                ops.append("threads " + ",".join(rng.choice(fails) for _ in range(threads)))
            else:
                ops.append("st getmsg")
        ops.append("st getmsg")
        streams.append(ops)
    return streams


def status_oracle(lines, impl):
    """The specification of the status protocol run over one stream, fed with the outcome
    the implementation reported for each `call` line. Returns [(index, expected, got)]."""
    bad = []
    state = "OK"
    for i, (l, o) in enumerate(zip(lines, impl)):
        if o == "skipped" or o.startswith("crash"):
            break
        w = l.split()
        exp = None
        if w[0] == "st" and w[1] == "reset":
            exp, state = "ok", "OK"
        elif w[0] == "st" and w[1] == "fail":
            exp, state = "err", FAIL_KINDS[w[2]]
        elif w[0] == "st" and w[1] == "succ":
            exp = "ok"
        elif w[0] == "st" and w[1] == "getmsg":
            if state is not None:
                exp = "ok msg " + state
        elif w[0] == "threads":
            exp = "ok " + ",".join(FAIL_KINDS[k] for k in w[1].split(",")) + " main=null:retval"
            state = "null:retval"
        elif w[0] == "call":
            if o.startswith("err null "):
                state = "null:" + o[9:].split()[0]
            elif o == "ok":
                pass
            else:
                state = None
        else:
            state = None
        if exp is not None and o != exp:
            bad.append((i, exp, o))
            break
    return bad


# ------------------------------------------------------------------ comparison / judgement

def cmp(impl, model):
    if impl == model:
        return True
    if model == "crash" and impl.startswith("crash"):
        return True
    if model == "ok same" and impl == "ok same error":
        return True
    if model == "pass":
        return impl == "ok" or impl == "err cpp" or impl.startswith("ok ")
    return False


def make_judge(byname, stats=None):
    stats = stats if stats is not None else {}

    def judge(line, impl, model):
        w = line.split()
        if w[0] == "eq":
            k = "both succeed, equal results" if impl == "ok same" else "both fail, equal messages" if impl == "ok same error" else "other"
            stats[k] = stats.get(k, 0) + 1
        if impl.startswith("crash"):
            return "the call crashes the process (%s) instead of returning a status" % impl
        if impl.startswith("bad-status") or impl.startswith("err-") or impl == "err" and w[0] in ("call", "eq"):
            return "the call let an exception escape or returned something that is not a status code (%s)" % impl
        if w[0] == "call" and w[1] in byname:
            ps = byname[w[1]]["params"]
            pat = [] if w[2] == "-" else w[2].split(",")
            if "out-written-on-error" in impl:
                return "a failing call wrote to an output location"
            if "out-overrun" in impl:
                return "the call wrote past the end of the caller's array"
            if impl.startswith("err null "):
                x = impl[9:].split()[0]
                nm = x.split("[")[0]
                idx = [i for i, p in enumerate(ps) if p["name"] == nm]
                if idx and len(pat) == len(ps):
                    t = pat[idx[0]]
                    if t not in ("N", "E") or ("[" in x) != (t == "E"):
                        return "argument `%s` (%s) is rejected as null although it is %s" % (
                            nm, ps[idx[0]]["ty"], {"z": "the by-value 0", "m": "a by-value all-ones", "v": "valid"}.get(t, t))
            if impl == "ok" and len(pat) == len(ps):
                for i, t in enumerate(pat):
                    if t == "N" and ps[i]["role"] in REQUIRED_ROLES:
                        return "NULL for the required argument `%s` is accepted (PRIMITIV_C_OK)" % ps[i]["name"]
            return None
        if w[0] == "eq":
            if impl not in ("ok same", "ok same error", "bad-op"):
                return "C API and C++ API disagree: " + impl[:300]
            return None
        if w[0] == "sizeq" and w[1] in SIZEQ_FUNCS and len(w) in (4, 6):
            ln = int(w[2]); extra = SIZEQ_FUNCS[w[1]]; req = ln + extra
            if w[3] == "null":
                exp = "ok size=%d written=0" % req
            else:
                cap = int(w[3])
                exp = "err size=%d written=0" % cap if cap < req else "ok size=%d written=%d" % (cap, req)
            if impl != exp and not impl.startswith("bad-len"):
                return "size-query convention: expected `%s`, got `%s`" % (exp, impl)
            return None
        return None
    return judge


def classify_key(line, impl, what):
    w = line.split()
    fn = w[1] if len(w) > 1 else "?"
    if impl.startswith("crash"):
        cls = "crash"
    elif "rejected as null" in what:
        cls = "value-rejected"
    elif w[0] == "eq":
        cls = "differs-from-cpp"
    elif w[0] == "sizeq":
        cls = "size-query"
    else:
        cls = "protocol"
    pat = w[2] if w[0] == "call" and len(w) > 2 else ""
    # which argument: the NULL / E / z positions of the pattern
    if w[0] == "call":
        return "capi:%s:%s:%s" % (fn, cls, pat)
    # one report per function and failure class for the hand-written cases (the replay holds the input)
    return "capi:%s:%s" % (fn, cls)


# ------------------------------------------------------------------ the check

def harness_flags(st):
    return ["-I" + st["dispatch_dir"], "-DCAPI_GEN_" + st["dispatch_hash"]]


def run_eq_leg(chk, select, per_case=None):
    """The C API as one more public entry point of another property: for every hand-written equivalence case whose
    wrapper name satisfies `select`, the C call and the corresponding C++ call run on the same inputs in harness h_capi
    (status, message, all outputs; floats bitwise).  Implementation only — the wrapper table and its theorems are C20's."""
    from translate import capi
    with build.Lock("capi-gen"):
        st = capi.generate(lock=False)
    flags = harness_flags(st)
    exe = build.build_harness("h_capi", extra_flags=flags)
    per_case = per_case or (3 if chk.tier == "quick" else 40)
    lines = [l for l in fixed_eq_lines() + eq_lines(chk.rng, per_case) if len(l.split()) > 1 and select(l.split()[1])]
    seen = set()
    lines = [l for l in lines if not (l in seen or seen.add(l))]
    outs, reports = vrun.run_impl(exe, lines, timeout=900)
    chk.traces += 1
    judge = make_judge({})
    for l, o in zip(lines, outs):
        chk.count(l, o, o in ("ok same", "ok same error"))
        what = judge(l, o, o)
        if what:
            chk.report(classify_key(l, o, what), "%s -> %s: %s" % (l[:200], o[:200], what),
                       {"family": "capi", "harness": "h_capi", "lines": [l], "model_family": None, "observed_impl": o[:1500],
                        "harness_flags": "see props/C20.py harness_flags (dispatch table generated by translate/capi.py)"})
    chk.extra_cov["capi_equivalence_cases_run"] = len(lines)


def run(chk):
    from translate import capi
    quick = chk.tier == "quick"
    chk.rule = (
        "Rows: every `PRIMITIV_C_STATUS primitiv...` definition of primitiv/c/**/*.cc as regenerated by translate/capi.py. "
        "call lines: for every row the all-valid pattern, each single NULL pointer, each single NULL array element, by-value zeros "
        "(thorough: pairs of NULLs, all-ones values, NULL+zero, NULL element + NULL); executed on the real C API with fixture objects and "
        "compared with the table's prediction (err null <arg> / crash / pass). eq lines: per hand-written case, arguments drawn from one PRNG "
        "(shapes of depth 0..3, batch 1..3, axes inside/outside, 0 / 2^31 / 2^32-1, mismatching operands, invalid objects); the C call and the "
        "corresponding C++ call run on the same inputs; status, message and all outputs must be equal (floats bitwise). sizeq: NULL, every "
        "capacity 0..len+2 for every array/string-returning function. st/threads: random histories of failing / succeeding / reset / getmsg "
        "calls per thread judged by the specification of the protocol. Non-trivial = the call returned PRIMITIV_C_OK or an equivalence case "
        "reported `ok same`; distinct = distinct lines.")
    import time
    t0 = time.time()
    with build.Lock("capi-gen"):
        t1 = time.time()
        st = capi.generate(lock=False)
        table = st["table"]
        t2 = time.time()
        ob = chk.obligations(MODS, drivers=["capi"])
    chk.extra_cov["wall_split_s"] = {"wait_gen_lock": round(t1 - t0, 1), "translate": round(t2 - t1, 1), "lean": round(time.time() - t2, 1)}
    byname = {w["name"]: w for w in table}
    chk.extra_cov["translator"] = {k: st[k] for k in ("wrappers", "declared", "params", "uses", "null_checks", "unsupported",
                                                      "unsupported_rows", "undefined", "same_as_golden", "sources")}
    chk.extra_cov["translator"]["handler"] = st["handler"]
    chk.extra_cov["translator"]["helpers"] = st["helpers"]
    selftest = capi.selftest() if hasattr(capi, "selftest") else []
    if selftest:
        chk.report("translator-selftest", "translator self-test failed: " + "; ".join(selftest)[:600], {"failures": selftest}, found_input=False)
    flags = harness_flags(st)

    # ---- lines
    lines = []
    corpus = os.path.join(build.VERIF, "corpus", "capi.ops")
    if os.path.exists(corpus):
        lines += [l.strip() for l in open(corpus) if l.strip() and not l.startswith("#")]
    calls = call_lines(table, chk.tier)
    lines += calls
    eqs = fixed_eq_lines() + eq_lines(chk.rng, 4 if quick else 100)
    lines += eqs
    lines += ["call primitivNoSuchFunction v", "call primitivGetShapeDepth v", "call primitivGetShapeDepth v,q", "frobnicate", "eq primitivNoSuchFunction",
              "call primitivGetShapeDepth z,v", "sizeq primitivGetShapeDepth 1 1", "st fail nothing", "threads"]
    seen = set()
    lines = [l for l in lines if not (l in seen or seen.add(l))]
    eq_stats = {}
    judge = make_judge(byname, eq_stats)
    chk.extra_cov["eq_outcomes"] = eq_stats

    dis, judged, crashes = chk.correspond("capi", "h_capi", [lines], stateful=False, cmp=cmp, judge=judge, extra_flags=flags, timeout=900,
                                          nontrivial=lambda line, out: out == "ok" or out == "ok same")

    # ---- size queries: phase 1 asks the implementation for the length of each source
    exe = build.build_harness("h_capi", extra_flags=flags)
    fixtures = [(f, "") for f in sorted(SIZEQ_FUNCS)] + sizeq_fixtures(chk.rng, quick)
    q0 = [("sizeq0 %s %s" % (f, tail)).strip() for f, tail in fixtures]
    o0, _ = vrun.run_impl(exe, q0)
    sq = []
    for (fn, tail), l, o in zip(fixtures, q0, o0):
        m = re.match(r"ok (\d+)$", o)
        if not m:
            chk.report("capi:%s:sizeq0" % fn, "size query set-up failed: %s -> %s" % (l, o), {"lines": [l], "observed_impl": o}, found_input=True)
            continue
        ln = int(m.group(1))
        if tail:
            caps = ["null", str(max(ln - 1, 0)), str(ln), str(ln + 1)] + ([] if quick else ["0", str(ln + 5)])
        else:
            caps = ["null"] + [str(c) for c in sorted(set([0, 1, max(ln - 1, 0), ln, ln + 1, ln + 2, ln + 7]))]
            if not quick:
                caps = ["null"] + [str(c) for c in range(0, min(ln, 40) + 3)] + [str(ln - 1), str(ln), str(ln + 1), str(ln + 100)]
        for c in caps:
            sq.append(("sizeq %s %d %s %s" % (fn, ln, c, tail)).strip())
    seen = set()
    sq = [l for l in q0 + sq if not (l in seen or seen.add(l))]
    d2, j2, c2 = chk.correspond("capi", "h_capi", [sq], stateful=False, cmp=cmp, judge=judge, extra_flags=flags,
                                nontrivial=lambda line, out: out.startswith("ok"))
    dis += d2; judged += j2; crashes += c2

    # ---- status streams
    streams = status_streams(chk.rng, table, 6 if quick else 40, 40 if quick else 120, 0 if quick else 4)
    if quick:
        streams.append(["threads nshape,updim", "st getmsg", "threads ntensor,nnode,matmul", "st getmsg"])
    else:
        streams.append(["threads " + ",".join(sorted(FAIL_KINDS)[:16]), "st getmsg"])
    st_viol = []

    def post(ls, impl, model):
        for (i, exp, got) in status_oracle(ls, impl):
            st_viol.append({"lines": ls[:i + 1], "line": ls[i], "expected": exp, "impl": got, "model": model[i]})
        return impl, model
    d3, j3, c3 = chk.correspond("capi", "h_capi", streams, stateful=True, cmp=cmp, judge=judge, extra_flags=flags, post=post,
                                nontrivial=lambda line, out: out.startswith("ok msg") or out.startswith("ok ") or out == "err")
    dis += d3; judged += j3; crashes += c3

    chk.extra_cov["wall_split_s"]["correspondence"] = round(time.time() - t2 - chk.extra_cov["wall_split_s"]["lean"], 1)
    # ---- decisions
    base = {"family": "capi", "harness": "h_capi", "variant": "asan"}
    jl = set()
    for j in judged:
        key = classify_key(j["line"], j["impl"], j["what"])
        jl.add((tuple(j["lines"]), j["index"]))
        rp = dict(base, lines=j["lines"], stateful=j["stateful"], observed_impl=j["impl"], model=j["model"])
        chk.report(key, "%s -> %s: %s" % (j["line"], j["impl"], j["what"]), rp, found_input=True)
    for v in st_viol:
        lines_s = v["lines"]

        def still(ls):
            o, _ = vrun.run_impl(exe, ls, stateful=True)
            return bool(status_oracle(ls, o))
        small = vcheck.shrink(lines_s, still, max_runs=30) if len(lines_s) > 2 else lines_s
        chk.report("capi:status:%s:%s" % (v["line"], v["expected"]),
                   "status protocol: after %d calls `%s` gives `%s`, the specification says `%s`" % (len(small), v["line"], v["impl"], v["expected"]),
                   dict(base, lines=small, stateful=True, expected=v["expected"], observed_impl=v["impl"]), found_input=True)
    for r in crashes:
        if r.get("at_exit"):
            chk.report("capi:at-exit:" + r["kind"], "the harness process failed at exit (%s): %s" % (r["kind"], (r.get("stderr") or "")[-400:]),
                       dict(base, kind=r["kind"], stderr=(r.get("stderr") or "")[-1500:]), found_input=False)
    for d in dis:
        if (tuple(d["lines"]), d["index"]) in jl:
            continue
        if any(v["lines"][-1] == d["line"] and v["lines"][:len(d["lines"])] == d["lines"] for v in st_viol):
            continue
        w = d["line"].split()
        chk.report("correspondence:capi:%s:%s" % (w[0], w[1] if len(w) > 1 else ""),
                   "the table / model and the implementation disagree on `%s` (impl `%s`, model `%s`): the generated table no longer describes the code"
                   % (d["line"], d["impl"][:200], d["model"]),
                   dict(base, lines=d["lines"], stateful=d["stateful"], observed_impl=d["impl"], model=d["model"],
                        broken="correspondence capi/h_capi"), found_input=False)
    broken = chk.broken_obligations()
    if broken and not any(v["found_input"] for v in chk.violations) and not chk.known_hits:
        for name, why in broken.items():
            chk.report("obligation:" + name, "theorem %s no longer checks: %s" % (name, why),
                       {"theorem": name, "reason": why, "rows": offending_rows(table, name), "log": (chk.oblig or {}).get("log_tail", "")[-1500:]},
                       found_input=False)
    elif broken:
        chk.notes.append("obligations that do not check on this tree: " + ", ".join(sorted(broken)))

    # ---- coverage statement
    cov = covered_by_eq()
    names = {w["name"] for w in table}
    chk.extra_cov["wrappers_called_with_null_patterns"] = len({l.split()[1] for l in calls})
    chk.extra_cov["wrappers_with_c_vs_cpp_equivalence"] = len(cov & names)
    chk.extra_cov["wrappers_without_equivalence_case"] = sorted(names - cov)
    chk.extra_cov["lines"] = {"call": len(calls), "eq": len(eqs), "sizeq": len(sq), "status_streams": len(streams)}
    chk.trusted += [
        "translate/capi.py: tokenizer + pattern parser of the preprocessed wrapper bodies; the classification of each parameter use "
        "(check / deref / nullable forward) is what the table theorems are about; it is validated by running every wrapper with every single-NULL "
        "pattern on the real library and comparing with the prediction made from the table",
        "modelled, not verified: the C++ functions behind the wrappers (a NULL passed on as `to_cpp_ptr(dev)` means default device/graph; the "
        "pointer-vector overloads of concat/sum/mean dereference every element; std::string(nullptr) throws std::logic_error in libstdc++)",
        "equivalence with the C++ API on valid and invalid *non-NULL* arguments is tested, not proved: %d of %d wrappers have a hand-written "
        "C-vs-C++ case (harness/h_capi.cc), the others are only called mechanically (status and message checked, outputs not compared): %s"
        % (len(cov & names), len(names), ", ".join(sorted(names - cov)) or "none"),
        "exceptions that are not derived from std::exception are outside the handler of every wrapper (catch (const std::exception &)); the "
        "library throws none",
        "message texts are compared between the C API and the C++ call in the same process; the model works with labels of the messages",
    ]
    chk.assumptions += ["array arguments are passed with n >= 1 elements in the NULL patterns (with n = 0 a NULL array is still rejected by the wrappers, "
                        "which the C++ API would accept as an empty vector: recorded as an observation, not counted)",
                        "count arguments always equal the real length of the array they describe (a wrong length is the caller's error)"]


def offending_rows(table, theorem):
    """rows of the table that falsify a table theorem (for the report)"""
    out = []
    for w in table:
        if theorem.endswith("only_pointers_checked"):
            for u in w["uses"]:
                if u["kind"] == "check" and w["params"][u["param"]]["depth"] == 0:
                    out.append("%s(%s)" % (w["name"], w["params"][u["param"]]["name"]))
        elif theorem.endswith("deref_implies_checked"):
            c, e = set(), set()
            for u in w["uses"]:
                k, p = u["kind"], u["param"]
                if k == "check":
                    c.add(p)
                elif k == "elemCheck":
                    e.add(p)
                else:
                    if k in ("starWrite", "star", "arrow", "cppStar", "cppArrow", "index", "rangeData", "rangeObjPtr", "rangeString", "asString",
                             "rawFwd", "sizeArg") and p not in c:
                        out.append("%s(%s: %s unchecked)" % (w["name"], w["params"][p]["name"], k))
                    if k in ("elemCppStar", "elemCppArrow", "rangeObjPtr", "rangeString") and p not in e:
                        out.append("%s(%s[i]: %s unchecked)" % (w["name"], w["params"][p]["name"], k))
        elif theorem.endswith("all_try_blocks"):
            if not (w["hasTry"] and w["handler"] == "stdException" and w["endsWithReturnOk"]):
                out.append(w["name"])
        elif theorem.endswith("no_unsupported"):
            if w["unsupported"]:
                out.append("%s: %s" % (w["name"], w["unsupported"][0][:100]))
    return sorted(set(out))[:40]


def replay(path):
    """./check C20 --replay file: re-run the lines of a replay on the working tree (implementation and model)."""
    from translate import capi
    obj = json.load(open(path))
    rp = obj.get("replay", {})
    print("replay of C20: %s" % obj.get("what", "")[:300])
    if "lines" not in rp:
        print(json.dumps(rp, indent=1)[:3000])
        return 0
    with build.Lock("capi-gen"):
        st = capi.generate(lock=False)
        lean.lake(["build", "drv_capi"])
    exe = build.build_harness("h_capi", extra_flags=harness_flags(st))
    impl, reports = vrun.run_impl(exe, rp["lines"], stateful=rp.get("stateful", False))
    model = vrun.run_model("capi", rp["lines"])
    byname = {w["name"]: w for w in st["table"]}
    judge = make_judge(byname)
    bad = 0
    for l, i, m in zip(rp["lines"], impl, model):
        w = judge(l, i, m)
        mark = "!" if (w or not cmp(i, m)) else " "
        bad += mark == "!"
        print("%s %s\n    impl : %s\n    model: %s%s" % (mark, l, i, m, ("\n    " + w) if w else ""))
    if rp.get("stateful"):
        for (i, exp, got) in status_oracle(rp["lines"], impl):
            print("! line %d: specification says `%s`, implementation `%s`" % (i, exp, got))
            bad += 1
    for r in reports:
        print("crash report:", r["kind"], (r.get("stderr") or "")[-600:])
    return 1 if bad or reports else 0
