"""KARITH — pseudo-property: everything the `karith` family checks (C01, C02, C03, C08, C11 parts
of the arithmetic kernels) in one run: `./check KARITH`."""
from props import _karith


def run(chk):
    # known findings are recorded under their real property ids
    from vlib import check as vcheck
    chk.known = [k for k in vcheck.load_known() if k.get("status") == "known" and k.get("property") in _karith.PROPS]
    _karith.run_family(chk, "ALL")
