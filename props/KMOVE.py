"""KMOVE — pseudo-property of the `kernels` family (agent kmove): everything that
props/C01..C03, C08, C10, C11 take from props/_kmove.py, under one id, so that the
family can be checked on its own with `./check KMOVE`."""
from props import _kmove


def run(chk):
    _kmove.run_family(chk, "ALL")
