"""Device-level fault injection and buffer accounting on real function programs
(harness h_grad, `alloc` mode): properties C10 (allocation failure at the k-th
device allocation, for every k) and C11 (no uninitialised output, backward
releases intermediate gradients, nothing outlives graph/tensors/parameters)."""
from vlib import run as vrun, build
from props._gradcases import CASES


def run_alloc(chk, n_seeds, props=("C10", "C11"), mode="alloc"):
    """mode "lazy": only the accounting run of every program (allocations during graph construction, poison, buffers
    alive), without the failure injected at every allocation."""
    exe = build.build_harness("h_grad")
    base = chk.rng.randrange(1, 10 ** 6)
    lines = ["%s %s %s %d" % (mode, d, c, base + s) for c in CASES for s in range(n_seeds) for d in ("naive", "eigen")]
    outs, reports = vrun.run_impl(exe, lines, timeout=1800)
    chk.traces += 1
    injected = 0
    for l, o in zip(lines, outs):
        chk.count(l, o, o.startswith("ok pass"))
        if o.startswith("ok pass"):
            try:
                injected += int(o.split("failures-injected=")[1])
            except (IndexError, ValueError):
                pass
            continue
        case = l.split()[2]
        if o.startswith("crash"):
            cls, prop = "crash", "C11"
        elif "node creation computed something" in o:
            cls, prop = "eager-node-creation", "C05"
        elif "never written" in o:
            cls, prop = "uninitialised-output", "C11"
        elif "alive" in o:
            cls, prop = "buffers-not-released", "C11"
        elif o.startswith("err"):
            cls, prop = "error", "C10"
        else:
            cls, prop = "failure-not-atomic", "C10"
        if prop not in props and not o.startswith("crash"):
            continue
        chk.report("alloc:%s:%s" % (case, cls), "fault-injection / buffer-accounting run `%s`: %s" % (l, o[:500]),
                   {"family": "grad", "harness": "h_grad", "lines": [l], "observed": o[:1500], "model_family": None,
                    "how": "the program runs on a device whose new_handle counts, poisons and fails at the k-th allocation, for every k"})
    chk.extra_cov["allocation_failures_injected"] = chk.extra_cov.get("allocation_failures_injected", 0) + injected
    if len(chk.samples) < 8:
        chk.samples.append({"family": "grad/alloc", "op": lines[0], "impl": outs[0]})
