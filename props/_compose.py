"""Composition of the properties that are decided from several families
(C01, C02, C03, C08, C10, C11): obligations = the Props modules each family
contributes for the property; runs = each family's correspondence with the
property's judge."""
import importlib, os
from vlib import lean
from props.C05 import finish_obligations

KERNEL_LIBS = ["_kmove", "_karith"]


def load(names, chk):
    libs = []
    for name in names:
        try:
            libs.append(importlib.import_module("props." + name))
        except ImportError as e:
            chk.notes.append("library props/%s.py not available in this tree (%s)" % (name, e))
    return libs


def existing(mods):
    return [m for m in mods if os.path.exists(lean.mod_path(m))]


def obligations(chk, prop, libs, own_mods=(), own_drivers=()):
    mods = existing(list(own_mods))
    drivers = list(own_drivers)
    for lib in libs:
        if hasattr(lib, "translators"):
            lib.translators()
        for d in getattr(lib, "DRIVERS", []):
            if d not in drivers:
                drivers.append(d)
        for m in getattr(lib, "MODS", {}).get(prop, []):
            if m not in mods and os.path.exists(lean.mod_path(m)):
                mods.append(m)
    chk.obligations(mods, drivers=drivers)
    return mods


def finish(chk):
    finish_obligations(chk)


def run_lib(lib, chk, prop):
    """Run a family library for a property it contributes to."""
    mods = getattr(lib, "MODS", {})
    if prop not in mods and prop not in getattr(lib, "PROPS", ()):
        chk.notes.append("%s contributes nothing to %s" % (lib.__name__, prop))
        return
    lib.run_family(chk, prop)
