"""Library of the `funcs` family (public function layer on Node and Tensor):
program generators for the harness `h_funcs` / model driver `drv_funcs`, the
judgement of a program run, and the program-level runs that C02 (composite
helpers against their documented formula), C03 (metamorphic minibatch law) and
C10 (malformed calls change nothing) add to the function-level checks.

    composite_streams(rng, tier)   + run_composites(chk)
    metamorphic_streams(rng, tier) + run_metamorphic(chk)
    malformed_streams(rng, tier)   + run_malformed(chk)

All of them need the model driver: call
`chk.obligations([...], drivers=["funcs"])` first.  A generator keeps a live
`drv_funcs` process and reads the model's prediction of every line it emits
(the static shape of each new variable), so that it can build long, mostly
valid programs without a second copy of the shape rules; all random choices
come from the `rng` passed in, the driver is deterministic, so a run replays
exactly.
"""
import math, os, struct, subprocess
from fractions import Fraction
from vlib import run as vrun, build

FAMILY = "funcs"
HARNESS = "h_funcs"
UNARY = ["positive", "negative", "abs", "sqrt", "exp", "log", "tanh", "sigmoid", "softplus", "sin", "cos", "tan",
         "relu", "lrelu", "stop_gradient", "selu", "neg", "pos"]
ARITH = ["add", "subtract", "multiply", "divide", "pow", "op+", "op-", "op*", "op/"]
AXIS = ["flip", "max", "min", "sum", "mean", "logsumexp", "log_softmax", "softmax"]
DEVS = ["naive", "naive2", "eigen"]
BIG = [8, 9, 255, 2**31, 2**32 - 1]


def tok(dims, b=1):
    return "S:%s/%d" % (",".join(map(str, dims)), b)


def parse_shape(s):
    """'[2,3]x4' -> ([2,3], 4)"""
    d, b = s.rsplit("x", 1)
    d = d.strip("[]")
    return ([int(x) for x in d.split(",")] if d else []), int(b)


def volume(dims):
    v = 1
    for d in dims:
        v *= d
    return v


def table_obligation_setup(chk=None):
    """For a check whose Lean obligations import Gen/OpTable.lean (C04, C01's Props/C01/Rules.lean): regenerate the
    table from this run's working tree and pin it until the process exits, so that the regeneration step of a
    concurrent check of another working tree does not rewrite it between generation and the lake build."""
    import atexit
    from translate import operators
    if operators.pin():
        atexit.register(operators.unpin)
    try:
        return operators.generate()
    except Exception as e:
        if chk is not None:
            chk.report("translator-failure", "translate/operators.py failed on the working tree: %r" % (e,), {"error": repr(e)}, found_input=False)
        return None


class Var:
    def __init__(self, name, dims, batch, dev, graph, n=None, lazy=False, random=False, intval=True):
        self.name, self.dims, self.batch, self.dev, self.graph = name, dims, batch, dev, graph
        self.n = n            # number of elements of a vector variable (split), None for a plain one
        self.lazy = lazy      # no Tensor value (evaluation is expected to throw)
        self.random = random
        self.intval = intval  # values are small integers (exact arithmetic so far)

    def dim(self, i):
        return self.dims[i] if i < len(self.dims) else 1


class Model:
    """A live model driver."""

    def __init__(self):
        self.p = subprocess.Popen([vrun.drv_exe(FAMILY)], stdin=subprocess.PIPE, stdout=subprocess.PIPE)

    def ask(self, line):
        self.p.stdin.write((line + "\n").encode())
        self.p.stdin.flush()
        out = self.p.stdout.readline().decode().rstrip("\n")
        if out == "":
            raise RuntimeError("model driver died on: " + line)
        return out

    def close(self):
        try:
            self.p.stdin.close()
            self.p.wait(timeout=10)
        except Exception:
            self.p.kill()


class Gen:
    """Generator of one program."""

    def __init__(self, rng, devs=("naive",), maxdepth=3, ints=True):
        self.rng, self.m = rng, Model()
        self.lines, self.outs = [], []
        self.vars = {}
        self.params = []
        self.k = 0
        self.dev, self.graph = "naive", 0
        self.devs = list(devs)
        self.maxdepth = maxdepth
        self.ints = ints

    def close(self):
        self.m.close()

    # ---------------------------------------------------------------- basics
    def emit(self, line):
        out = self.m.ask(line)
        self.lines.append(line)
        self.outs.append(out)
        return out

    def fresh(self, p="v"):
        self.k += 1
        return "%s%d" % (p, self.k)

    def let(self, f, args, name=None, intval=False):
        """Emit `let name = f args`; register the variable when the model accepts the call."""
        name = name or self.fresh()
        out = self.emit("let %s = %s %s" % (name, f, " ".join(str(a) for a in args)))
        w = out.split(" ")
        if w[0] != "ok":
            return None
        sh = w[1]
        n = None
        if "*" in sh:
            cnt, sh = sh.split("*", 1)
            n = int(cnt)
            if sh in ("none", "mixed"):
                return None
        dims, b = parse_shape(sh)
        srcs = [self.vars[t.split(".")[0]] for a in args for t in self._vartoks(str(a)) if t.split(".")[0] in self.vars]
        dev = srcs[0].dev if srcs else self.dev
        graph = srcs[0].graph if srcs else self.graph
        if f == "copy":
            dev = args[1] if len(args) > 1 else self.dev
        lazy = len(w) > 2 and w[2] in ("devmix", "tensor-err")
        rnd = f.startswith("random::") or any(s.random for s in srcs) or \
            (f == "dropout" and str(args[2]) != "0" and float(args[1]) not in (0.0, 1.0))
        v = Var(name, dims, b, dev, graph, n=n, lazy=lazy or any(s.lazy for s in srcs), random=rnd,
                intval=intval and all(s.intval for s in srcs))
        self.vars[name] = v
        return v

    @staticmethod
    def _vartoks(a):
        if a.startswith("V:"):
            return [x for x in a[2:].split(",") if x]
        if a[:2] in ("S:", "I:", "D:") or a in DEVS or a[:1].isdigit() or a[:1] in "-.":
            return []
        return [a]

    def data(self, n, lo=-3, hi=4, positive=False):
        r = self.rng
        if positive:
            return "D:" + ",".join(str(r.randint(1, hi)) for _ in range(n))
        if self.ints:
            return "D:" + ",".join(str(r.randint(lo, hi)) for _ in range(n))
        return "D:" + ",".join(str(r.choice([-2.5, -1, -0.5, 0, 0.25, 0.5, 1, 1.5, 3])) for _ in range(n))

    def new_input(self, dims, batch=1, positive=False, lo=-3, hi=4):
        name = self.fresh("x")
        out = self.emit("let %s = input %s %s" % (name, tok(dims, batch), self.data(volume(dims) * batch, lo, hi, positive)))
        if not out.startswith("ok"):
            return None
        d, b = parse_shape(out.split(" ")[1])
        v = Var(name, d, b, self.dev, self.graph)
        self.vars[name] = v
        return v

    def new_param(self, dims, lo=-3, hi=4):
        name = self.fresh("p")
        out = self.emit("param %s %s %s" % (name, tok(dims, 1), self.data(volume(dims), lo, hi)))
        if not out.startswith("ok"):
            return None
        d, b = parse_shape(out.split(" ")[1])
        v = Var(name, d, b, self.dev, self.graph)
        self.vars[name] = v
        self.params.append(name)
        return v

    def rand_dims(self, maxdepth=None, maxdim=4):
        r = self.rng
        depth = r.choice([0, 1, 1, 2, 2, 2, 3, 3, 4][: 3 + 2 * (maxdepth or self.maxdepth)])
        depth = min(depth, maxdepth or self.maxdepth)
        return [r.choice([1, 2, 2, 3, 3, 4][:maxdim + 2]) for _ in range(depth)]

    def rand_batch(self):
        return self.rng.choice([1, 1, 1, 2, 3])

    def usable(self, pred=lambda v: True):
        """plain variables of the current graph and device that have both values"""
        return [v for v in self.vars.values() if v.n is None and not v.lazy and not v.random and v.graph == self.graph
                and v.dev == self.dev and pred(v)]

    def pick_var(self, pred=lambda v: True, make=None):
        c = self.usable(pred)
        if c and self.rng.random() < 0.8:
            return self.rng.choice(c)
        if make is not None:
            return make()
        v = self.new_input(self.rand_dims(), self.rand_batch())
        return v if v is not None and pred(v) else (self.rng.choice(c) if c else v)

    def need(self, dims, batch):
        def mk():
            return self.new_input(dims, batch)
        return self.pick_var(lambda v: v.dims == list(dims) and v.batch == batch, mk)

    def axis(self, v, beyond=True):
        r = self.rng
        depth = len(v.dims)
        if depth and r.random() < 0.7:
            return r.randrange(depth)
        return r.randrange(depth + 2) if beyond else (r.randrange(depth) if depth else 0)

    # ---------------------------------------------------------------- one valid call
    def valid_call(self, only=None):
        try:
            return self._valid_call(only)
        except (AttributeError, IndexError, ValueError):
            return None      # an operand could not be made (the model rejected it)

    def _valid_call(self, only=None):
        r = self.rng
        f = only or r.choice(
            UNARY + ARITH * 2 + AXIS * 2 +
            ["pown", "prelu", "elu", "pick", "slice", "split", "concat", "concat_ptr", "reshape", "flatten", "transpose",
             "permute_dims", "matmul", "broadcast", "softmax_cross_entropy", "softmax_cross_entropy_sparse", "conv2d",
             "max_pool2d", "batch::pick", "batch::slice", "batch::split", "batch::concat", "batch::concat_ptr",
             "batch::sum", "batch::mean", "batch::normalize", "constant", "zeros", "ones", "identity", "input", "copy",
             "dropout", "selu2"])
        exact = {"positive", "negative", "abs", "relu", "stop_gradient", "neg", "pos", "add", "subtract", "multiply",
                 "op+", "op-", "op*", "pick", "slice", "split", "concat", "concat_ptr", "reshape", "flatten", "transpose",
                 "permute_dims", "matmul", "broadcast", "flip", "max", "min", "sum", "batch::pick", "batch::slice",
                 "batch::split", "batch::concat", "batch::concat_ptr", "batch::sum", "constant", "zeros", "ones",
                 "identity", "input", "copy", "max_pool2d", "conv2d"}
        iv = f in exact
        if f in UNARY:
            return self.let(f, [self.pick_var().name], intval=iv)
        if f in ARITH:
            mode = r.choice(["xk", "kx", "ab", "ab", "sa", "as", "ss"])
            k = r.choice([-2, -1, 0, 1, 2, 3, 0.5])
            a = self.pick_var()
            if mode == "xk":
                return self.let(f, [a.name, k], intval=iv and k != 0.5)
            if mode == "kx":
                return self.let(f, [k, a.name], intval=iv and k != 0.5)
            if mode == "ab":
                bb = r.choice([a.batch, 1, a.batch]) if a.batch > 1 else r.choice([1, 1, 2, 3])
                b = self.need(a.dims, bb)
                return self.let(f, [a.name, b.name] if r.random() < 0.5 else [b.name, a.name], intval=iv)
            s = self.need([], r.choice([1, a.batch]))
            if mode == "ss":
                s2 = self.need([], r.choice([1, s.batch]))
                return self.let(f, [s.name, s2.name], intval=iv)
            return self.let(f, [s.name, a.name] if mode == "sa" else [a.name, s.name], intval=iv)
        if f in AXIS:
            a = self.pick_var()
            return self.let(f, [a.name, self.axis(a)], intval=iv)
        if f == "pown":
            return self.let(f, [self.pick_var().name, r.choice([-2, -1, 0, 1, 2, 3, 2, 3, 16777217, -16777217, 33554433, 1073741825, 2147483647, -2147483647])], intval=False)
        if f in ("prelu", "elu"):
            return self.let(f, [self.pick_var().name, r.choice([0, 0.5, 1, 2])])
        if f == "selu2":
            return self.let(f, [self.pick_var().name, r.choice([0.5, 1, 2]), r.choice([0.5, 1, 2])])
        if f == "pick":
            a = self.pick_var()
            d = self.axis(a)
            n = r.choice([1, a.batch]) if a.batch > 1 else r.choice([1, 1, 2, 3])
            ids = [r.randrange(a.dim(d)) for _ in range(n)]
            return self.let(f, [a.name, "I:" + ",".join(map(str, ids)), d], intval=iv)
        if f == "slice":
            a = self.pick_var()
            d = self.axis(a)
            lo = r.randrange(a.dim(d))
            up = r.randint(lo + 1, a.dim(d))
            return self.let(f, [a.name, d, lo, up], intval=iv)
        if f == "split":
            a = self.pick_var()
            d = self.axis(a)
            n = r.choice([k for k in range(1, a.dim(d) + 1) if a.dim(d) % k == 0])
            return self.let(f, [a.name, d, n], intval=iv)
        if f in ("concat", "concat_ptr"):
            a = self.pick_var()
            d = self.axis(a)
            if d >= 8:
                d = 0
            xs = [a]
            for _ in range(r.choice([0, 1, 1, 2])):
                dims = list(a.dims) + [1] * max(0, d + 1 - len(a.dims))
                dims[d] = r.choice([1, 2, 3])
                while dims and dims[-1] == 1:
                    dims.pop()
                xs.append(self.need(dims, r.choice([1, a.batch])))
            r.shuffle(xs)
            return self.let(f, ["V:" + ",".join(x.name for x in xs), d], intval=iv)
        if f == "reshape":
            a = self.pick_var()
            v = volume(a.dims)
            cands = [[v], [1, v], [v, 1]] + [[p, v // p] for p in range(2, v) if v % p == 0] + [list(reversed(a.dims))]
            return self.let(f, [a.name, tok(r.choice(cands), r.choice([1, a.batch]))], intval=iv)
        if f == "flatten":
            return self.let(f, [self.pick_var().name], intval=iv)
        if f == "transpose":
            return self.let(f, [self.pick_var(lambda v: len(v.dims) <= 2).name], intval=iv)
        if f == "permute_dims":
            a = self.pick_var()
            n = len(a.dims) + r.choice([0, 0, 1])
            perm = list(range(n))
            r.shuffle(perm)
            return self.let(f, [a.name, "I:" + ",".join(map(str, perm))], intval=iv)
        if f == "matmul":
            a = self.pick_var(lambda v: len(v.dims) <= 2)
            k = r.choice([1, 2, 3])
            b = self.need([a.dim(1)] + ([k] if k > 1 else []) if a.dim(1) > 1 or k > 1 else [], r.choice([1, a.batch]))
            return self.let(f, [a.name, b.name], intval=iv)
        if f == "broadcast":
            a = self.pick_var()
            ones = [i for i in range(len(a.dims) + 2) if a.dim(i) == 1]
            return self.let(f, [a.name, r.choice(ones), r.choice([1, 2, 3])], intval=iv)
        if f == "softmax_cross_entropy":
            a = self.pick_var(lambda v: len(v.dims) >= 1)
            t = self.need(a.dims, r.choice([1, a.batch]))
            return self.let(f, [a.name, t.name, self.axis(a, beyond=False)])
        if f == "softmax_cross_entropy_sparse":
            a = self.pick_var()
            d = self.axis(a)
            n = r.choice([1, a.batch]) if a.batch > 1 else r.choice([1, 1, 2])
            ids = [r.randrange(a.dim(d)) for _ in range(n)]
            return self.let("softmax_cross_entropy", [a.name, "I:" + ",".join(map(str, ids)), d])
        if f == "conv2d":
            c = r.choice([1, 2])
            x = self.need([r.choice([2, 3, 4]), r.choice([2, 3, 4])] + ([c] if c > 1 else []), self.rand_batch())
            wd = [r.choice([1, 2]), r.choice([1, 2]), c, r.choice([1, 2])]
            while wd and wd[-1] == 1:
                wd.pop()
            w = self.need(wd, r.choice([1, x.batch]))
            return self.let(f, [x.name, w.name, r.choice([0, 1]), r.choice([0, 1]), r.choice([1, 2]), r.choice([1, 2]),
                                r.choice([1, 2]), r.choice([1, 1, 2])], intval=iv)
        if f == "max_pool2d":
            x = self.pick_var(lambda v: len(v.dims) <= 3 and v.dim(0) >= 2 and v.dim(1) >= 2,
                              lambda: self.new_input([r.choice([2, 3, 4]), r.choice([2, 3])], self.rand_batch()))
            return self.let(f, [x.name, r.choice([1, 2]), r.choice([1, 2]), r.choice([0, 1]), 0, r.choice([1, 2]), 1], intval=iv)
        if f == "batch::pick":
            a = self.pick_var()
            ids = [r.randrange(a.batch) for _ in range(r.choice([1, 2, 3]))]
            return self.let(f, [a.name, "I:" + ",".join(map(str, ids))], intval=iv)
        if f == "batch::slice":
            a = self.pick_var()
            lo = r.randrange(a.batch)
            return self.let(f, [a.name, lo, r.randint(lo + 1, a.batch)], intval=iv)
        if f == "batch::split":
            a = self.pick_var()
            n = r.choice([k for k in range(1, a.batch + 1) if a.batch % k == 0])
            return self.let(f, [a.name, n], intval=iv)
        if f in ("batch::concat", "batch::concat_ptr"):
            a = self.pick_var()
            xs = [a] + [self.need(a.dims, self.rand_batch()) for _ in range(r.choice([0, 1, 2]))]
            return self.let(f, ["V:" + ",".join(x.name for x in xs)], intval=iv)
        if f in ("batch::sum", "batch::mean", "batch::normalize"):
            return self.let(f, [self.pick_var().name], intval=iv)
        if f == "constant":
            return self.let(f, [tok(self.rand_dims(), self.rand_batch()), r.choice([-1, 0, 2, 0.5])], intval=False)
        if f in ("zeros", "ones"):
            return self.let(f, [tok(self.rand_dims(), self.rand_batch())], intval=True)
        if f == "identity":
            return self.let(f, [r.choice([1, 2, 3])], intval=True)
        if f == "input":
            return self.new_input(self.rand_dims(), self.rand_batch())
        if f == "copy":
            a = self.pick_var()
            return self.let(f, [a.name, r.choice(self.devs)], intval=iv)
        if f == "dropout":
            a = self.pick_var()
            rate, en = r.choice([(0, 1), (1, 1), (0.5, 0), (0, 0), (1, 0), (0.5, 1)])
            return self.let(f, [a.name, rate, en])
        return None

    # ---------------------------------------------------------------- one invalid call
    def invalid_call(self):
        try:
            return self._invalid_call()
        except (AttributeError, IndexError, ValueError):
            return None

    def _invalid_call(self):
        """A call that violates one precondition (the model decides whether it really is rejected)."""
        r = self.rng
        kind = r.choice(["axis", "axis", "shape", "shape", "ids", "range", "count", "empty", "reshape", "matrix", "data",
                         "conv", "perm", "random", "size0", "bigaxis"])
        a = self.pick_var()
        big = r.choice(BIG)
        if kind == "axis":
            f = r.choice(AXIS + ["pick", "slice", "split", "concat", "broadcast", "softmax_cross_entropy", "sce_sparse"])
            d = r.choice([len(a.dims) + 1, 7, 8, 8, 9, big])
            if f in AXIS:
                return self.let(f, [a.name, d])
            if f == "pick":
                return self.let(f, [a.name, "I:0", d])
            if f == "slice":
                return self.let(f, [a.name, d, 0, 1])
            if f == "split":
                return self.let(f, [a.name, d, 1])
            if f == "concat":
                return self.let(f, ["V:%s,%s" % (a.name, a.name), d])
            if f == "broadcast":
                return self.let(f, [a.name, d, 2])
            if f == "softmax_cross_entropy":
                return self.let(f, [a.name, a.name, d])
            return self.let("softmax_cross_entropy", [a.name, "I:0", d])
        if kind == "bigaxis":
            f = r.choice(["flip", "sum", "max", "logsumexp", "softmax", "mean", "split", "slice", "pick", "concat", "broadcast",
                          "slice", "split", "pick", "flip", "sum"])
            d = r.choice([8, 9, 2**32 - 1, 2**31, 255])
            args = {"split": [a.name, d, 1], "slice": [a.name, d, 0, 1], "pick": [a.name, "I:0", d],
                    "concat": ["V:" + a.name, d], "broadcast": [a.name, d, r.choice([1, 2])]}.get(f, [a.name, d])
            v = self.let(f, args)
            if v is not None:      # an axis beyond the depth is a size-1 axis where the code allows it: then the values must agree too
                self.emit("force %s" % (v.name if v.n is None else v.name + ".0"))
            return v
        if kind == "shape":
            f = r.choice(ARITH + ["matmul", "softmax_cross_entropy", "concat", "batch::concat", "conv2d"])
            dims = list(a.dims) + [2] if r.random() < 0.5 else [d + 1 for d in a.dims] or [2]
            b = self.need(dims, r.choice([a.batch, a.batch + 1]))
            if f == "softmax_cross_entropy":
                return self.let(f, [a.name, b.name, 0])
            if f == "concat":
                return self.let(f, ["V:%s,%s" % (a.name, b.name), r.choice([0, 1])])
            if f == "batch::concat":
                return self.let(f, ["V:%s,%s" % (a.name, b.name)])
            if f == "conv2d":
                return self.let(f, [a.name, b.name, 0, 0, 1, 1, 1, 1])
            return self.let(f, [a.name, b.name])
        if kind == "ids":
            d = self.axis(a)
            f = r.choice(["pick", "batch::pick", "softmax_cross_entropy"])
            bad = r.choice([a.dim(d), a.dim(d) + 1, big])
            if f == "pick":
                return self.let(f, [a.name, "I:%d" % bad, d])
            if f == "batch::pick":
                return self.let(f, [a.name, "I:%d" % r.choice([a.batch, big])])
            return self.let(f, [a.name, "I:%d" % bad, d])
        if kind == "range":
            d = self.axis(a)
            f = r.choice(["slice", "batch::slice"])
            n = a.dim(d) if f == "slice" else a.batch
            lo, up = r.choice([(0, n + 1), (n, n), (1, 1), (2, 1), (0, big), (big, big), (n, 0)])
            return self.let(f, [a.name, d, lo, up] if f == "slice" else [a.name, lo, up])
        if kind == "count":
            f = r.choice(["split", "batch::split", "pick", "batch::pick"])
            if f == "split":
                d = self.axis(a)
                return self.let(f, [a.name, d, r.choice([0, a.dim(d) + 1, 5, 7])])
            if f == "batch::split":
                return self.let(f, [a.name, r.choice([0, a.batch + 1, 5, 7])])
            if f == "pick":
                return self.let(f, [a.name, "I:" + ",".join(["0"] * r.choice([0, a.batch + 1, a.batch + 2])), 0])
            return self.let(f, [a.name, "I:"])
        if kind == "empty":
            f = r.choice(["concat", "concat_ptr", "batch::concat", "batch::concat_ptr"])
            return self.let(f, ["V:", 0] if f.startswith("concat") else ["V:"])
        if kind == "reshape":
            v = volume(a.dims)
            return self.let("reshape", [a.name, tok([v + 1], r.choice([1, a.batch])) if r.random() < 0.6 else tok([v], a.batch + 1)])
        if kind == "matrix":
            b = self.need([2, 2, 2], 1)
            return self.let(r.choice(["transpose", "matmul"]), [b.name] if r.random() < 0.5 else [b.name, b.name])
        if kind == "data":
            dims = self.rand_dims()
            n = volume(dims)
            return self.emit("let %s = input %s %s" % (self.fresh("x"), tok(dims), self.data(n + r.choice([1, -1]) if n > 0 else 2)))
        if kind == "conv":
            x = self.need([3, 3], 1)
            w = self.need([2, 2], 1)
            bad = r.choice([[0, 0, 0, 1, 1, 1], [0, 0, 1, 1, 0, 1], [0, 0, 1, 1, 4, 1], [0, 0, 1, 0, 1, 1]])
            if r.random() < 0.5:
                return self.let("conv2d", [x.name, w.name] + bad)
            return self.let("max_pool2d", [x.name] + r.choice([[0, 1, 0, 0, 1, 1], [4, 1, 0, 0, 1, 1], [1, 1, 0, 0, 0, 1], [2, 2, 0, 0, 1, 0]]))
        if kind == "perm":
            n = max(len(a.dims), 1)
            perm = r.choice([[0] * n, list(range(n))[:-1] if n > 1 else [1], [n] + list(range(1, n)), list(range(n)) + [n + 1]])
            return self.let("permute_dims", [a.name, "I:" + ",".join(map(str, perm))])
        if kind == "random":
            f, args = r.choice([("random::bernoulli", [2]), ("random::bernoulli", [-0.5]), ("random::uniform", [1, 0]),
                                ("random::normal", [0, 0]), ("random::normal", [0, -1]), ("random::log_normal", [0, 0]),
                                ("random::bernoulli", [0.5]), ("random::uniform", [0, 1]), ("random::normal", [0, 1]),
                                ("random::log_normal", [0, 1]), ("random::gumbel", [0, 1])])
            return self.let(f, [tok(self.rand_dims(), 1)] + args)
        if kind == "size0":
            f = r.choice(["identity", "constant", "broadcast", "zeros"])
            if f == "identity":
                return self.let(f, [0])
            if f == "broadcast":
                ones = [i for i in range(len(a.dims) + 1) if a.dim(i) == 1]
                return self.let(f, [a.name, ones[0], 0])
            return self.let(f, [tok([2, 0, 1], 1)] + ([1] if f == "constant" else []))
        return None

    def force_some(self, p=0.5):
        for v in list(self.vars.values()):
            if self.rng.random() < p:
                self.emit("force %s" % (v.name if v.n is None else "%s.%d" % (v.name, self.rng.randrange(v.n))))


# --------------------------------------------------------------------------
# program streams of C04

def valid_program(rng, ncalls, devs=("naive",), backward=True):
    g = Gen(rng, devs)
    try:
        if rng.random() < 0.4 and len(devs) > 1:
            g.dev = rng.choice(devs)
            g.emit("dev " + g.dev)
        for _ in range(rng.choice([1, 2])):
            g.new_param(g.rand_dims() or [2])
        made = 0
        while made < ncalls:
            v = g.valid_call()
            made += 1
            if v is not None and rng.random() < 0.35:
                g.emit("force %s" % (v.name if v.n is None else "%s.%d" % (v.name, rng.randrange(v.n))))
        g.force_some(0.3)
        if backward:
            c = [v for v in g.vars.values() if v.n is None and not v.lazy and not v.random]
            if c:
                g.emit("backward " + rng.choice(c).name)
                for p in g.params:
                    g.emit("grad " + p)
        g.emit("nops")
        return g.lines
    finally:
        g.close()


def invalid_program(rng, ncalls, devs=("naive", "naive2", "eigen")):
    """Valid calls interleaved with invalid ones, foreign-graph nodes and other-device tensors."""
    g = Gen(rng, devs)
    try:
        g.new_input([2, 2], 1)
        g.new_input([], 1)
        made = 0
        while made < ncalls:
            c = rng.random()
            if c < 0.25:
                g.valid_call()
            elif c < 0.75:
                g.invalid_call()
                made += 1
            elif c < 0.79:
                # every function of one variable works on a node of a graph that is not the default graph
                a = g.pick_var()
                if a is None:
                    continue
                g.emit("graph %d" % (1 - g.graph))
                f = rng.choice(UNARY + ["dropout", "dropout", "mean", "batch::mean", "batch::normalize", "log_softmax", "softmax", "selu",
                                        "flatten", "sum", "copy"])
                args = {"dropout": [a.name] + list(rng.choice([(0, 1), (1, 1), (0.5, 0)])), "mean": [a.name, 0], "log_softmax": [a.name, 0],
                        "softmax": [a.name, 0], "sum": [a.name, 0], "copy": [a.name, g.dev]}.get(f, [a.name])
                v = g.let(f, args)
                if v is not None:
                    g.emit("force " + v.name)
                g.emit("graph %d" % g.graph)
                made += 1
            elif c < 0.89:
                # a node of the other graph / a tensor of another device
                a = g.pick_var()
                if a is None:
                    continue
                if rng.random() < 0.5:
                    g.graph = 1 - g.graph
                    g.emit("graph %d" % g.graph)
                    b = g.new_input(rng.choice([a.dims, [], []]), 1)
                else:
                    old = g.dev
                    g.dev = rng.choice([d for d in g.devs if d != old] or [old])
                    g.emit("dev " + g.dev)
                    b = g.new_input(rng.choice([a.dims, []]), 1)
                if b is not None:
                    f = rng.choice(["add", "subtract", "multiply", "matmul", "concat", "batch::concat", "op+", "pow",
                                    "softmax_cross_entropy", "divide"])
                    xs = [a.name, b.name] if rng.random() < 0.5 else [b.name, a.name]
                    if f == "concat":
                        v = g.let(f, ["V:" + ",".join(xs), 0])
                    elif f == "batch::concat":
                        v = g.let(f, ["V:" + ",".join(xs)])
                    elif f == "softmax_cross_entropy":
                        v = g.let(f, xs + [0])
                    else:
                        v = g.let(f, xs)
                    if v is not None:
                        g.emit("force " + v.name)
                        w = g.let(rng.choice(["negative", "exp", "flatten"]), [v.name])
                        if w is not None:
                            g.emit("force " + w.name)
                made += 1
            else:
                g.emit("nops")
                c = [v for v in g.vars.values() if v.n is None]
                if c:
                    g.emit("force " + rng.choice(c).name)
        g.emit("nops")
        return g.lines
    finally:
        g.close()


def sce_program(rng, B=None):
    """Dense softmax_cross_entropy with every batch pattern of (x, t) — x possibly straight from a parameter —, the
    announced batch read by consumers, and operands differing on exactly the reduced axis."""
    g = Gen(rng)
    try:
        B = B or rng.choice([2, 3, 4])
        dims = [rng.choice([2, 3]) for _ in range(rng.choice([1, 2, 2]))]
        d = rng.randrange(len(dims))
        p = g.new_param(dims)
        xb = g.new_input(dims, B)
        t1 = g.new_input(dims, 1, lo=0, hi=2)
        tb = g.new_input(dims, B, lo=0, hi=2)
        k = 0
        for x in (p, xb):
            for t in (t1, tb):
                if x is None or t is None:
                    continue
                k += 1
                y = g.let("softmax_cross_entropy", [x.name, t.name, d], name="y%d" % k)
                if y is None:
                    continue
                g.emit("force " + y.name)
                # consumers that read the announced batch
                m = g.let("batch::mean", [y.name])
                if m is not None:
                    g.emit("force " + m.name)
                nb = max(x.batch, t.batch)
                sp = g.let("batch::split", [y.name, nb])
                if sp is not None and sp.n:
                    g.emit("force %s.%d" % (sp.name, sp.n - 1))
                c = g.let("batch::concat", ["V:%s,%s" % (y.name, y.name)])
                if c is not None:
                    g.emit("force " + c.name)
                s_ = g.let("batch::sum", [y.name])
                if s_ is not None:
                    g.emit("backward " + s_.name)
                    g.emit("grad " + p.name)
        # operands that differ on exactly the reduced axis: rejected by both APIs
        od = list(dims)
        od[d] += rng.choice([1, 2])
        o = g.new_input(od, rng.choice([1, B]))
        if o is not None:
            g.let("softmax_cross_entropy", [p.name, o.name, d])
            g.let("softmax_cross_entropy", [o.name, xb.name, d])
            od1 = list(dims)
            od1[d] = 1
            while od1 and od1[-1] == 1:
                od1.pop()
            o1 = g.new_input(od1, 1)
            if o1 is not None:
                g.let("softmax_cross_entropy", [xb.name, o1.name, d])
                g.let("softmax_cross_entropy", [o1.name, tb.name, d])
        g.emit("nops")
        return g.lines
    finally:
        g.close()


def pown_program(rng):
    """pown(x, k) on both APIs for exponents on both sides of every integer-width and float-mantissa boundary
    (|k| around 2^24 and 2^31, odd and even), on bases -1, 1, -2, 0 and small integers: the exponent must reach
    the kernel as the int32 the caller passed."""
    g = Gen(rng)
    try:
        dims = [rng.choice([1, 2, 3]) for _ in range(rng.choice([1, 1, 2]))]
        xs = [g.new_input(dims, rng.choice([1, 2]), lo=-2, hi=2), g.new_param(dims, lo=-1, hi=1)]
        ks = [16777215, 16777216, 16777217, 16777219, -16777217, -16777216, 33554431, 33554433, 1000000007, -1000000007,
              1073741823, 1073741825, 2147483646, 2147483647, -2147483647, -2147483648, 255, 256, 257, 65535, 65537, 3, -3, 0]
        rng.shuffle(ks)
        for k in ks[: rng.randint(8, len(ks))]:
            for x in xs:
                if x is None:
                    continue
                y = g.let("pown", [x.name, k])
                if y is not None:
                    g.emit("force " + y.name)
        g.emit("nops")
        return g.lines
    finally:
        g.close()


def scalar_dispatch_program(rng):
    """The five binary functions (and their operator forms) on every pair (scalar, non-scalar) and (scalar, scalar) with every
    compatible batch pattern — a scalar WITH a minibatch included —, both operand orders, on both APIs: the scalar rule
    applies whenever an operand has no dimensions, whatever its batch."""
    g = Gen(rng)
    try:
        B = rng.choice([2, 3])
        dims = [rng.choice([2, 3]) for _ in range(rng.choice([1, 2]))]
        s1 = g.new_input([], 1, lo=1, hi=3)
        sB = g.new_input([], B, lo=1, hi=3)
        t1 = g.new_input(dims, 1, lo=1, hi=3)
        tB = g.new_input(dims, B, lo=1, hi=3)
        p = g.new_param(dims, lo=1, hi=3)
        for f in ("add", "subtract", "multiply", "divide", "pow"):
            for a in (s1, sB):
                for b in (t1, tB, p, s1, sB):
                    for (x, y) in ((a, b), (b, a)):
                        if x is None or y is None:
                            continue
                        v = g.let(f, [x.name, y.name])
                        if v is not None:
                            g.emit("force " + v.name)
        g.emit("nops")
        return g.lines
    finally:
        g.close()


def degenerate_list_program(rng):
    """List-taking functions with a list of ONE element (and two equal ones): concat / batch::concat along axes inside,
    at MAX_DEPTH and far beyond; the same validation applies as for longer lists, on both APIs."""
    g = Gen(rng)
    try:
        dims = [rng.choice([1, 2, 3]) for _ in range(rng.choice([0, 1, 2]))]
        x = g.new_input(dims, rng.choice([1, 2]))
        p = g.new_param(dims or [2])
        for v in (x, p):
            if v is None:
                continue
            for ax in (0, 1, len(dims), 7, 8, 9, 100, 4294967295):
                for lst in ("V:%s" % v.name, "V:%s,%s" % (v.name, v.name)):
                    y = g.let("concat", [lst, ax])
                    if y is not None:
                        g.emit("force " + y.name)
            y = g.let("batch::concat", ["V:%s" % v.name])
            if y is not None:
                g.emit("force " + y.name)
        g.emit("nops")
        return g.lines
    finally:
        g.close()


def device_program(rng):
    """Programs over several devices on both APIs: copy with the device argument omitted (the default device), copy to a
    named device, and binary functions whose LEFT operand is a scalar on another device than the right operand."""
    g = Gen(rng, DEVS)
    try:
        d1, d2 = rng.sample(DEVS, 2)
        g.dev = d1
        g.emit("dev " + d1)
        m1 = g.new_input([2, 2], rng.choice([1, 2]))
        s1 = g.new_input([], 1)
        p1 = g.new_param([2, 2])
        g.dev = d2
        g.emit("dev " + d2)       # d2 is the default device from here on
        m2 = g.new_input([2, 2], 1)
        s2 = g.new_input([], 1)
        # copy(x): lands on the default device, usable with a default-device operand
        c = g.let("copy", [m1.name], intval=True)
        if c is not None:
            g.emit("force " + c.name)
            z = g.let(rng.choice(["add", "multiply", "matmul", "subtract"]), [c.name, m2.name])
            if z is not None:
                g.emit("force " + z.name)
            z = g.let("concat", ["V:%s,%s" % (m2.name, c.name), rng.choice([0, 1])])
            if z is not None:
                g.emit("force " + z.name)
            # … and not with an operand of the device it came from
            z = g.let("add", [c.name, m1.name])
            if z is not None:
                g.emit("force " + z.name)
        cp = g.let("copy", [p1.name])
        if cp is not None:
            z = g.let("multiply", [cp.name, s2.name])
            if z is not None:
                g.emit("force " + z.name)
                g.emit("backward " + z.name)
                g.emit("grad " + p1.name)
        # copy(x, dev)
        for dv in DEVS:
            c2 = g.let("copy", [m2.name, dv], intval=True)
            if c2 is not None:
                g.emit("force " + c2.name)
                z = g.let("add", [c2.name, m1.name if dv == d1 else m2.name])
                if z is not None:
                    g.emit("force " + z.name)
        # a scalar LEFT operand living on another device
        for f in ["add", "subtract", "multiply", "divide", "pow"] + [rng.choice(["op+", "op-", "op*", "op/"])]:
            for (a, b) in ((s1, m2), (s2, m1), (s1, s2)):
                z = g.let(f, [a.name, b.name])
                if z is not None:
                    g.emit("force " + z.name)
                    w = g.let("negative", [z.name])
                    if w is not None:
                        g.emit("force " + w.name)
            z = g.let(f, [m2.name, s1.name])
            if z is not None:
                g.emit("force " + z.name)
        g.emit("nops")
        return g.lines
    finally:
        g.close()


def conv_program(rng, grid=None):
    """conv2d / max_pool2d with anisotropic attributes on both APIs, every call also with the two components of each
    attribute pair swapped (asymmetric operands: one ordering may be accepted, the other rejected)."""
    g = Gen(rng)
    try:
        for _ in range(4 if grid is None else 1):
            h, w_ = grid[0] if grid else rng.choice([(5, 2), (2, 5), (4, 3), (3, 6), (6, 1)])
            c = rng.choice([1, 2])
            x = g.new_input([h, w_] + ([c] if c > 1 else []), rng.choice([1, 2]))
            kh, kw = grid[1] if grid else rng.choice([(3, 1), (1, 3), (2, 1), (1, 2), (3, 2)])
            kd = [kh, kw, c, rng.choice([1, 2])]
            while kd and kd[-1] == 1:
                kd.pop()
            k = g.new_input(kd, 1)
            combos = grid[2] if grid else [(rng.choice([(0, 1), (1, 0), (0, 2), (2, 0), (1, 2)]),
                                            rng.choice([(1, 2), (2, 1), (1, 3), (3, 1), (2, 3)]),
                                            rng.choice([(1, 2), (2, 1), (1, 3), (1, 1), (2, 3)])) for _ in range(3)]
            for (p, s_, d) in combos:
                for (pp, ss, dd) in (((p[0], p[1]), (s_[0], s_[1]), (d[0], d[1])), ((p[1], p[0]), (s_[1], s_[0]), (d[1], d[0]))):
                    v = g.let("conv2d", [x.name, k.name, pp[0], pp[1], ss[0], ss[1], dd[0], dd[1]], intval=True)
                    if v is not None:
                        g.emit("force " + v.name)
                    # window = the kernel extents, padding and stride as above
                    v = g.let("max_pool2d", [x.name, kh if pp == tuple(p) else kw, kw if pp == tuple(p) else kh, pp[0], pp[1], ss[0], ss[1]], intval=True)
                    if v is not None:
                        g.emit("force " + v.name)
        g.emit("nops")
        return g.lines
    finally:
        g.close()


def enum_programs(tier):
    """Small-scope enumeration: every function x small argument ranges on a fixed set of operands."""
    heads = ["let a = input S:2,3/1 D:1,2,3,4,5,6", "let b = input S:2,3/2 D:1,2,3,4,5,6,-1,-2,-3,-4,-5,-6",
             "let s = input S:/1 D:2", "let sb = input S:/2 D:2,3", "let m = input S:3,2/1 D:1,0,2,1,0,1",
             "let c = input S:2,3,2/1 D:1,2,3,4,5,6,6,5,4,3,2,1", "let v = input S:3/1 D:1,2,3",
             "let w = input S:2,2/1 D:1,-1,2,0", "param p S:2,3/1 D:1,1,1,2,2,2"]
    names = ["a", "b", "s", "sb", "m", "c", "v", "w", "p"]
    progs = []

    def prog(calls):
        lines = list(heads)
        for i, (f, args) in enumerate(calls):
            lines.append("let r%d = %s %s" % (i, f, " ".join(map(str, args))))
            if f in ("split", "batch::split"):
                lines.append("force r%d.0" % i)
            else:
                lines.append("force r%d" % i)
        lines.append("nops")
        return lines
    axes = [0, 1, 2, 3, 7, 8, 9, 2**32 - 1]
    for x in names:
        calls = [(f, [x]) for f in UNARY + ["flatten", "transpose", "batch::sum", "batch::mean", "batch::normalize"]]
        progs.append(prog(calls))
        calls = [(f, [x, d]) for f in AXIS for d in axes]
        progs.append(prog(calls))
        calls = []
        for d in (9, 255, 2**32 - 1):
            calls += [("split", [x, d, 1]), ("broadcast", [x, d, 1]), ("broadcast", [x, d, 2]), ("slice", [x, d, 0, 1]),
                      ("pick", [x, "I:0", d]), ("softmax_cross_entropy", [x, "I:0", d])]
        for d in axes[:6]:
            for n in (0, 1, 2, 3):
                calls.append(("split", [x, d, n]))
                calls.append(("broadcast", [x, d, n]))
            for lo in (0, 1):
                for up in (0, 1, 2, 3, 4):
                    calls.append(("slice", [x, d, lo, up]))
            for ids in ("I:", "I:0", "I:1", "I:0,1", "I:2", "I:3"):
                calls.append(("pick", [x, ids, d]))
                calls.append(("softmax_cross_entropy", [x, ids, d]))
        progs.append(prog(calls))
        calls = []
        for n in (0, 1, 2, 3):
            calls.append(("batch::split", [x, n]))
        for lo in (0, 1, 2):
            for up in (0, 1, 2, 3):
                calls.append(("batch::slice", [x, lo, up]))
        for ids in ("I:", "I:0", "I:1", "I:0,1", "I:2", "I:0,1,0"):
            calls.append(("batch::pick", [x, ids]))
        for k in (-2, -1, 0, 1, 2, 3, 16777217, -33554433, 2147483647):
            calls.append(("pown", [x, k]))
        for k in (0, 0.5, 2):
            calls += [("prelu", [x, k]), ("elu", [x, k])]
        for rate, en in ((0, 1), (1, 1), (0.5, 0), (0, 0), (1, 0), (0.5, 1)):
            calls.append(("dropout", [x, rate, en]))
        for sh in ("S:6/1", "S:3,2/1", "S:6/2", "S:2,3/2", "S:1,6/1", "S:7/1", "S:12/1", "S:3,2,2/1", "S:/1", "S:3/1", "S:2,2/1"):
            calls.append(("reshape", [x, sh]))
        for perm in ("I:", "I:0", "I:1,0", "I:0,1", "I:0,0", "I:2,0,1", "I:1,0,2", "I:0,1,3", "I:1,2"):
            calls.append(("permute_dims", [x, perm]))
        for dv in DEVS:
            calls.append(("copy", [x, dv]))
        progs.append(prog(calls))
    for x in names:
        calls = []
        for y in names:
            for f in ["add", "subtract", "multiply", "divide", "pow", "op+", "op-", "op*", "op/", "matmul"]:
                calls.append((f, [x, y]))
            for d in (0, 1, 2, 8):
                calls.append(("softmax_cross_entropy", [x, y, d]))
                calls.append(("concat", ["V:%s,%s" % (x, y), d]))
            calls.append(("batch::concat", ["V:%s,%s" % (x, y)]))
            calls.append(("conv2d", [x, y, 0, 0, 1, 1, 1, 1]))
            calls.append(("conv2d", [x, y, 1, 1, 1, 2, 1, 1]))
        for k in (-1, 0, 2, 0.5):
            for f in ["add", "subtract", "multiply", "divide", "pow", "op+", "op-", "op*", "op/"]:
                calls += [(f, [x, k]), (f, [k, x])]
        for wnd in ([1, 1, 0, 0, 1, 1], [2, 2, 0, 0, 1, 1], [2, 1, 1, 0, 2, 1], [3, 3, 0, 0, 1, 1], [0, 1, 0, 0, 1, 1], [2, 2, 0, 0, 0, 1]):
            calls.append(("max_pool2d", [x] + wnd))
        progs.append(prog(calls))
    calls = []
    for sh in ("S:/1", "S:2/1", "S:2,2/3", "S:0/1", "S:2/0", "S:1,1,1,1,1,1,1,1,2/1"):
        calls += [("constant", [sh, 2]), ("zeros", [sh]), ("ones", [sh]), ("random::bernoulli", [sh, 0.5]),
                  ("random::uniform", [sh, 0, 1]), ("random::normal", [sh, 0, 1]), ("random::log_normal", [sh, 0, 1]),
                  ("random::gumbel", [sh, 0, 1]), ("random::bernoulli", [sh, 2]), ("random::uniform", [sh, 1, 0]),
                  ("random::normal", [sh, 0, 0]), ("random::log_normal", [sh, 0, -1])]
    for n in (0, 1, 2, 3):
        calls.append(("identity", [n]))
    for cc in ("V:", "V:a", "V:a,a,a", "V:a,c", "V:s,s", "V:a,b", "V:b,a"):
        for d in (0, 1, 2, 8):
            calls += [("concat", [cc, d]), ("concat_ptr", [cc, d])]
        calls += [("batch::concat", [cc]), ("batch::concat_ptr", [cc])]
    progs.append(prog(calls))
    # systematic: SCE batch patterns, devices, anisotropic conv / pool
    import random as _r
    rr = _r.Random(20260930)
    for B in (2, 3, 4):
        for _ in range(4):
            progs.append(sce_program(rr, B))
    for _ in range(12):
        progs.append(device_program(rr))
    for hw in ((5, 2), (2, 5), (4, 3), (3, 6)):
        for kk in ((3, 1), (1, 3), (2, 1), (3, 2)):
            combos = [(p, s_, d) for p in ((0, 1), (1, 0), (0, 2)) for s_ in ((1, 2), (2, 1), (1, 3)) for d in ((1, 2), (2, 1), (1, 1))]
            progs.append(conv_program(rr, (hw, kk, combos)))
    return progs


# --------------------------------------------------------------------------
# running and judging

def cmp_lines(impl, model):
    """`force`, `grad`, `value` print values on the implementation side only."""
    if impl == model:
        return True
    if model == "crash" and impl.startswith("crash"):
        return True
    a, b = impl.split(" "), model.split(" ")
    if a[0] == "ok" and b[0] == "ok" and len(b) <= 3 and len(a) >= len(b):
        if len(b) == 3 and b[1] in ("same", "node-only", "random"):
            return a[:3] == b
        if len(b) == 2 and b[1].startswith("[") and len(a) == 3 and not a[2].startswith("tensor") and a[2] != "devmix":
            return a[1] == b[1]      # grad / value: shape, then values
    return False


def call_key(line):
    """canonical form of a program line for keys: variable names replaced by `v`"""
    w = line.split(" ")
    if w[0] != "let":
        return w[0]
    out = [w[3]]
    for a in w[4:]:
        if a.startswith("V:"):
            out.append("V%d" % len([x for x in a[2:].split(",") if x]))
        elif a[:2] in ("S:", "I:", "D:") or a in DEVS or a[:1].isdigit() or a[:1] in "-.":
            if a.isdigit() and int(a) >= 8:
                out.append(">=8" if int(a) < 2**31 else ">=2^31")
            else:
                out.append(a if not a.startswith("D:") else "D")
        else:
            out.append("v")
    return " ".join(out)


def judge_program(lines, impl):
    """Property violations visible on the implementation alone.  Returns [(index, class, what)]."""
    bad = []
    poisoned = set()     # variables without a Tensor value whose Node evaluation must throw
    curgraph, vgraph = "0", {}
    for i, (l, o) in enumerate(zip(lines, impl)):
        w = l.split(" ")
        ow = o.split(" ")
        if w[0] == "graph" and len(w) == 2:
            curgraph = w[1]
        if w[0] == "param" and o.startswith("ok"):
            vgraph[w[1]] = curgraph
        if o.startswith("crash"):
            bad.append((i, "crash", "the call crashes (%s) instead of raising primitiv::Error" % o))
            break
        if o == "skipped":
            continue
        if w[0] == "let":
            args = [t.split(".")[0] for a in w[4:] for t in Gen._vartoks(a)]
            uses_poisoned = any(a in poisoned for a in args)
            g = vgraph.get(args[0], curgraph) if args else curgraph
            if o.startswith("ok"):
                vgraph[w[1]] = g
            if "tensor-ok" in ow:
                where = "@non-default-graph" if g != curgraph else ""
                bad.append((i, "node-rejects-tensor-accepts" + where, "the Node API rejects the call%s, the Tensor API accepts it (%s)"
                            % (" on a node of a graph that is not the default graph" if where else "", o)))
            elif "tensor-accepts-devmix" in ow:
                bad.append((i, "mixed-devices-accepted", "operands living on different devices are accepted by both APIs (%s)" % o))
            elif "tensor-shape" in ow:
                bad.append((i, "static-shape-differs", "Node::shape() differs from the Tensor API's result shape (%s)" % o))
            elif "tensor-err" in ow:
                if w[3].startswith("random::") or uses_poisoned:
                    poisoned.add(w[1])     # invalid distribution parameter / depends on a failing value: due at evaluation
                else:
                    bad.append((i, "node-accepts-tensor-rejects", "the Node API accepts the call, the Tensor API rejects it (%s)" % o))
                    poisoned.add(w[1])
            elif "devmix" in ow:
                poisoned.add(w[1])
        elif w[0] == "force":
            name = w[1].split(".")[0]
            if ow[:2] == ["ok", "differ"]:
                bad.append((i, "values-differ", "lazy and eager evaluation disagree (%s)" % o[:300]))
            elif ow[:2] == ["ok", "node-only"]:
                bad.append((i, "late-error-missing", "the Tensor API rejected the call, evaluating the node succeeds (%s)" % o[:200]))
            elif o == "err" and name not in poisoned:
                bad.append((i, "evaluation-throws", "evaluating a node whose creation both APIs accepted throws"))
        elif w[0] == "backward":
            if o == "err" and w[1].split(".")[0] not in poisoned:
                bad.append((i, "backward-throws", "backward() of an accepted node throws"))
    return bad


def run_programs(chk, streams, variant="asan", tag=""):
    """Run programs on harness and model.  Returns (violations, disagreements): lists of dicts."""
    found, dis = [], []
    seen = {}

    def post(lines, impl, model):
        for (i, cls, what) in judge_program(lines, impl):
            found.append({"lines": lines[:i + 1], "index": i, "line": lines[i], "impl": impl[i], "model": model[i],
                          "class": cls, "what": what, "variant": variant})
        return impl, model
    d, _, crashes = chk.correspond(FAMILY, HARNESS, streams, stateful=True, variant=variant, cmp=cmp_lines, post=post,
                                   nontrivial=lambda line, out: out.startswith("ok") and line.startswith(("let", "force")))
    judged = {(tuple(f["lines"][:-1]), f["line"]) for f in found}
    for x in d:
        if (tuple(x["lines"][:-1]), x["line"]) in judged or x["impl"].startswith("crash"):
            continue
        dis.append(x)
    for c in crashes:
        if c.get("at_exit"):
            found.append({"lines": [], "index": -1, "line": "(process exit)", "impl": "crash " + c["kind"], "model": "",
                          "class": "crash-at-exit", "what": "sanitizer report at process exit: %s %s" % (c["kind"], (c.get("stderr") or "")[-400:]),
                          "variant": variant})
    return found, dis


def shrink_program(chk, rec, still):
    """Minimise the history of a failing line (keeps the last line)."""
    from vlib.check import shrink
    lines = rec["lines"]
    if len(lines) <= 2:
        return lines
    head, last = lines[:-1], lines[-1]
    exe = build.build_harness(HARNESS, rec.get("variant", "asan"))

    def fails(cand):
        prog = cand + [last]
        impl, _ = vrun.run_impl(exe, prog, stateful=True)
        return still(prog, impl)
    small = shrink(head, fails, max_runs=40)
    return small + [last]


def report_found(chk, found, dis, prop="C04", keyprefix="funcs"):
    reported = set()
    for f in found:
        key = "%s:%s:%s" % (keyprefix, f["class"], call_key(f["line"]))
        if key in reported:
            continue
        reported.add(key)
        cls, last = f["class"], f["line"]

        def still(prog, impl, cls=cls, last=last):
            return any(c == cls and prog[i] == last for (i, c, _) in judge_program(prog, impl))
        lines = f["lines"]
        if lines and chk.match_known(key) is None and len(lines) > 3:
            try:
                lines = shrink_program(chk, f, still)
            except Exception:
                pass
        chk.report(key, "%s: %s" % (f["line"], f["what"]),
                   {"family": FAMILY, "harness": HARNESS, "variant": f["variant"], "stateful": True, "lines": lines,
                    "observed_impl": f["impl"], "model": f["model"]})
    for x in dis:
        key = "correspondence:%s:%s" % (keyprefix, call_key(x["line"]))
        if key in reported:
            continue
        reported.add(key)
        chk.report(key, "model and implementation disagree on `%s` (impl `%s`, model `%s`) with no API disagreement observed on the "
                   "implementation; the table-driven model of the function layer no longer describes the code" % (x["line"], x["impl"][:200], x["model"][:200]),
                   {"family": FAMILY, "harness": HARNESS, "variant": x["variant"], "stateful": True, "lines": x["lines"],
                    "observed_impl": x["impl"], "model": x["model"], "broken": "correspondence funcs/h_funcs"}, found_input=False)


# --------------------------------------------------------------------------
# values

def decode(tok_):
    """value token of a `force` line -> float"""
    if tok_.startswith("x"):
        return struct.unpack("<f", struct.pack("<I", int(tok_[1:], 16)))[0]
    return float(int(tok_))


def values_of(out):
    """`ok same <shape> v,v,…` -> (dims, batch, [floats]) or None"""
    w = out.split(" ")
    if len(w) < 4 or w[0] != "ok" or w[1] not in ("same", "node-only"):
        return None
    dims, b = parse_shape(w[2])
    vals = [] if w[3] == "-" else [decode(t) for t in w[3].split(",")]
    return dims, b, vals


def f32(x):
    try:
        return struct.unpack("<f", struct.pack("<f", x))[0]
    except OverflowError:
        return math.inf if x > 0 else -math.inf


def ulp32(x):
    x = abs(f32(x))
    if x == 0 or math.isinf(x) or math.isnan(x):
        return 2.0 ** -149
    m, e = math.frexp(x)
    return 2.0 ** max(e - 24, -149)


# --------------------------------------------------------------------------
# C02: composite helpers against the documented formula (float64 reference)

def _lsm(col):
    m = max(col)
    z = m + math.log(sum(math.exp(v - m) for v in col))
    return [v - z for v in col]


def _columns(dims, batch, d):
    """index lists of the 1-d fibres along axis d of a column-major tensor with a batch"""
    full = list(dims) + [1] * max(0, d + 1 - len(dims))
    lo = volume(full[:d])
    n = full[d]
    hi = volume(full[d + 1:]) * batch
    return [[a + lo * (k + n * c) for k in range(n)] for c in range(hi) for a in range(lo)], n


def ref_composite(f, args, env):
    """Reference of the documented formula.  env: name -> (dims, batch, values).  Returns (dims, batch, values, tol_ulps)."""
    x = env[args[0]]
    dims, b, v = x
    if f == "mean":
        d = int(args[1])
        cols, n = _columns(dims, b, d)
        out = [sum(v[i] for i in c) / n for c in cols]
        od = list(dims) + [1] * max(0, d + 1 - len(dims))
        od[d] = 1
        while od and od[-1] == 1:
            od.pop()
        return od, b, out, 4 + n
    if f == "batch::mean":
        vol = volume(dims)
        return dims, 1, [sum(v[i + vol * k] for k in range(b)) / b for i in range(vol)], 4 + b
    if f == "batch::normalize":
        if b == 1:
            return dims, b, list(v), 0
        vol = volume(dims)
        out = [0.0] * (vol * b)
        for i in range(vol):
            xs = [v[i + vol * k] for k in range(b)]
            m = sum(xs) / b
            var = (b / (b - 1.0)) * (sum(t * t for t in xs) / b - m * m)
            for k in range(b):
                out[i + vol * k] = (xs[k] - m) / math.sqrt(var + 1e-8)
        return dims, b, out, None      # cancellation: absolute tolerance, see run_composites
    if f == "selu":
        a, s = 1.6732632423543772848170429916717, 1.0507009873554804934193349852946
        return dims, b, [s * (t if t >= 0 else a * (math.exp(t) - 1)) if t > -700 else -s * a for t in v], 8
    if f == "dropout":
        rate, en = float(args[1]), args[2] != "0"
        if not en or rate == 0:
            return dims, b, list(v), 0
        if rate == 1:
            return dims, b, [0.0 * t for t in v], 0
        return None
    if f in ("log_softmax", "softmax"):
        d = int(args[1])
        cols, n = _columns(dims, b, d)
        out = [0.0] * len(v)
        for c in cols:
            r = _lsm([v[i] for i in c])
            for i, t in zip(c, r):
                out[i] = t if f == "log_softmax" else math.exp(t)
        return dims, b, out, 6 + n
    if f == "softmax_cross_entropy":
        d = int(args[2])
        cols, n = _columns(dims, b, d)
        od = list(dims) + [1] * max(0, d + 1 - len(dims))
        od[d] = 1
        while od and od[-1] == 1:
            od.pop()
        if args[1].startswith("I:"):
            ids = [int(t) for t in args[1][2:].split(",")]
            full = list(dims) + [1] * max(0, d + 1 - len(dims))
            lo = volume(full[:d])
            hi = volume(full[d + 1:])
            bb = max(b, len(ids))
            vol = volume(dims)
            out = []
            for k in range(bb):
                kk = k if b > 1 else 0
                idx = ids[k] if len(ids) > 1 else ids[0]
                for c in range(hi):
                    for a in range(lo):
                        col = [v[kk * vol + a + lo * (j + n * c)] for j in range(n)]
                        out.append(-_lsm(col)[idx])
            return od, bb, out, 6 + n
        t = env[args[1]]
        tb = t[1]
        bb = max(b, tb)
        vol = volume(dims)
        full = list(dims) + [1] * max(0, d + 1 - len(dims))
        lo = volume(full[:d])
        hi = volume(full[d + 1:])
        out = []
        for k in range(bb):
            kx = k if b > 1 else 0
            kt = k if tb > 1 else 0
            for c in range(hi):
                for a in range(lo):
                    col = [v[kx * vol + a + lo * (j + n * c)] for j in range(n)]
                    tc = [t[2][kt * vol + a + lo * (j + n * c)] for j in range(n)]
                    out.append(-sum(p * q for p, q in zip(tc, _lsm(col))))
        return od, bb, out, 8 + 2 * n
    return None


def composite_streams(rng, tier):
    """Programs that apply one composite helper to generated operands, including large-magnitude inputs."""
    n = 40 if tier == "quick" else 400
    streams = []
    mags = [1, 1, 1, 10, 80, 1e4, 3e4]
    for _ in range(n):
        dims = [rng.choice([1, 2, 3, 4]) for _ in range(rng.choice([1, 1, 2, 2, 3]))]
        while dims and dims[-1] == 1:
            dims.pop()
        b = rng.choice([1, 2, 3])
        mag = rng.choice(mags)
        vol = volume(dims) * b

        def vals(k=vol, mag=mag):
            return "D:" + ",".join(repr(f32(rng.choice([-1, 1]) * rng.choice([0, 0.25, 0.5, 1, 1.5, 2, 3]) * mag)) for _ in range(k))
        lines = ["let x = input %s %s" % (tok(dims, b), vals())]
        d = rng.randrange(len(dims) + 1)
        f = rng.choice(["mean", "batch::mean", "batch::normalize", "selu", "dropout", "log_softmax", "softmax",
                        "softmax_cross_entropy", "sce_sparse"])
        if f in ("mean", "log_softmax", "softmax"):
            lines.append("let y = %s x %d" % (f, d))
        elif f in ("batch::mean", "batch::normalize", "selu"):
            if f == "batch::normalize" and mag > 100:
                lines[0] = "let x = input %s %s" % (tok(dims, b), vals(mag=rng.choice([1, 10])))
            lines.append("let y = %s x" % f)
        elif f == "dropout":
            rate, en = rng.choice([(0, 1), (1, 1), (0.5, 0), (0, 0), (1, 0)])
            lines.append("let y = dropout x %s %d" % (rate, en))
        elif f == "softmax_cross_entropy":
            tb = rng.choice([1, b])
            tv = "D:" + ",".join(repr(rng.choice([0, 0.25, 0.5, 1])) for _ in range(volume(dims) * tb))
            lines.append("let t = input %s %s" % (tok(dims, tb), tv))
            lines.append("let y = softmax_cross_entropy x t %d" % d)
        else:
            full = dims + [1] * max(0, d + 1 - len(dims))
            k = rng.choice([1, b]) if b > 1 else rng.choice([1, 1, 2])
            ids = [rng.randrange(full[d]) for _ in range(k)]
            lines.append("let y = softmax_cross_entropy x I:%s %d" % (",".join(map(str, ids)), d))
        lines += ["force x", "force y"]
        if f == "softmax_cross_entropy":
            lines.insert(-1, "force t")
        streams.append(lines)
    # dropout: every (rate, enabled); disabled returns x for EVERY rate, rate 1 enabled returns zeros
    for rate in (0, 0.5, 1):
        for en in (0, 1):
            b = rng.choice([1, 2])
            data = ",".join(repr(f32(rng.choice([-3e4, -2.5, -1, 0, 0.5, 2, 80, 1e4]))) for _ in range(3 * b))
            streams.append(["let x = input %s D:%s" % (tok([3], b), data), "let y = dropout x %s %d" % (rate, en), "force x", "force y"])
    return streams


def run_composites(chk, variant="asan"):
    """C02: every composite helper equals its documented formula (float64 reference, tolerance in float32 ulps of
    max(1, |exact|)); no NaN / overflow for large-magnitude inputs.  Reports under the caller's property."""
    streams = composite_streams(chk.rng, chk.tier)
    exe = build.build_harness(HARNESS, variant)
    worst = 0.0
    for lines in streams:
        impl, reports = vrun.run_impl(exe, lines, stateful=True)
        chk.traces += 1
        env = {}
        for l, o in zip(lines, impl):
            chk.count(l, o, o.startswith("ok"))
            w = l.split(" ")
            if o.startswith("crash"):
                chk.report("funcs:composite:crash:" + call_key(l), "%s crashes: %s" % (l, o),
                           {"family": FAMILY, "harness": HARNESS, "variant": variant, "stateful": True, "lines": lines})
                break
            if w[0] == "force":
                got = values_of(o)
                if got is None and o.startswith("ok random ") and w[1] == "y":
                    continue          # a random mask: shape checked below
                if got is None:
                    chk.report("funcs:composite:no-value:" + call_key(lines[-2 if w[1] == "y" else 0]),
                               "%s: no value (%s)" % (l, o[:200]),
                               {"family": FAMILY, "harness": HARNESS, "variant": variant, "stateful": True, "lines": lines})
                    break
                env[w[1]] = got
        if "y" not in env:
            # dropout with 0 < rate < 1, enabled: a random mask — the harness reports `ok random <shape>` once both APIs
            # produced a value of the static shape
            yl = [l for l in lines if l.startswith("let y = dropout")]
            yo = [o for l, o in zip(lines, impl) if l == "force y"]
            if yl and yo and not (yo[0].startswith("ok random ") and "x" in env and
                                  parse_shape(yo[0].split(" ")[2]) == (env["x"][0], env["x"][1])):
                chk.report("funcs:composite:" + call_key(yl[0]) + ":no-value", "%s: force y gives `%s`" % (yl[0], yo[0][:200]),
                           {"family": FAMILY, "harness": HARNESS, "variant": variant, "stateful": True, "lines": lines})
            continue
        call = [l for l in lines if l.startswith("let y =")][0].split(" ")
        f, args = call[3], call[4:]
        ref = ref_composite(f, args, env)
        if ref is None:
            continue
        rd, rb, rv, tol = ref
        gd, gb, gv = env["y"]
        # float32 rounding of the quantities entering the formula: the operands set the scale
        mag = max([1.0] + [abs(t) for nm in ("x", "t") if nm in env for t in env[nm][2] if not math.isinf(t)])
        key = "funcs:composite:%s" % call_key(" ".join(call))
        if (rd, rb) != (gd, gb) or len(rv) != len(gv):
            chk.report(key + ":shape", "%s: result shape %s x%d, the documented function gives %s x%d" % (" ".join(call), gd, gb, rd, rb),
                       {"family": FAMILY, "harness": HARNESS, "variant": variant, "stateful": True, "lines": lines})
            continue
        for i, (g, e) in enumerate(zip(gv, rv)):
            if math.isnan(g) or math.isinf(g):
                if not (math.isinf(e) and g == e):
                    chk.report(key + ":nan-or-overflow", "%s: element %d is %r, exact value %r" % (" ".join(call), i, g, e),
                               {"family": FAMILY, "harness": HARNESS, "variant": variant, "stateful": True, "lines": lines,
                                "expected": rv, "observed": gv})
                    break
                continue
            if tol is None:
                ok = abs(g - e) <= 1e-3 * max(1.0, abs(e))
                err = abs(g - e)
            else:
                err = abs(g - e) / ulp32(max(1.0, abs(e), mag))
                ok = err <= tol + 1
                worst = max(worst, abs(g - e) / ulp32(max(1.0, abs(e))))
            if not ok:
                chk.report(key + ":value", "%s: element %d is %r, the documented formula gives %r (error %.3g)" % (" ".join(call), i, g, e, err),
                           {"family": FAMILY, "harness": HARNESS, "variant": variant, "stateful": True, "lines": lines,
                            "expected": rv, "observed": gv})
                break
    chk.extra_cov["composite_programs"] = len(streams)
    chk.extra_cov["composite_worst_error_ulps_of_max1"] = round(worst, 2)
    return len(streams)


# --------------------------------------------------------------------------
# C03: metamorphic minibatch law on whole programs

BATCH_AGNOSTIC = ["negative", "abs", "relu", "add", "subtract", "multiply", "op+", "op-", "op*", "pick1", "slice", "concat",
                  "reshape", "flatten", "transpose", "permute_dims", "matmul", "broadcast", "flip", "max", "min", "sum",
                  "split", "stop_gradient", "max_pool2d", "conv2d", "pown2", "lrelu0", "sum"]


def _meta_program(rng, B, leaves_batched):
    """A random straight-line program over batch-agnostic integer-exact functions.
    Returns a function  build(mode) -> lines  where mode is
      ('full',)      the leaves carry their batch,
      ('sample', b)  every batched leaf is replaced by its b-th sample,
      ('repl',)      every batch-1 leaf is replaced by batch::concat of B copies."""
    nleaf = rng.choice([2, 3])
    leaves = []
    for i in range(nleaf):
        dims = [rng.choice([1, 2, 3]) for _ in range(rng.choice([1, 2, 2]))]
        while dims and dims[-1] == 1:
            dims.pop()
        batched = leaves_batched[i % len(leaves_batched)]
        vol = volume(dims)
        data = [[rng.randint(-3, 3) for _ in range(vol)] for _ in range(B if batched else 1)]
        leaves.append({"dims": dims, "batched": batched, "data": data, "param": (not batched) and rng.random() < 0.6})
    # a scalar divisor (never 0; 3, 7, ... make x / k and x * (1 / k) differ in the last bit): shared or one per sample
    if rng.random() < 0.5:
        kb = rng.random() < 0.5
        leaves.append({"dims": [], "batched": kb, "data": [[rng.choice([3, 7, -3, 6, 5, 9, 11])] for _ in range(B if kb else 1)],
                       "param": False, "divisor": True})
    steps = []
    seed = rng.getrandbits(60)

    def build(mode):
        import random as _r
        r = _r.Random(seed)
        lines = []
        names = []
        for i, lf in enumerate(leaves):
            nm = "l%d" % i
            if lf["batched"]:
                if mode[0] == "sample":
                    lines.append("let %s = input %s D:%s" % (nm, tok(lf["dims"], 1), ",".join(map(str, lf["data"][mode[1]]))))
                else:
                    flat = [v for s in lf["data"] for v in s]
                    lines.append("let %s = input %s D:%s" % (nm, tok(lf["dims"], B), ",".join(map(str, flat))))
            else:
                d = ",".join(map(str, lf["data"][0]))
                if lf["param"]:
                    lines.append("param %s %s D:%s" % (nm, tok(lf["dims"], 1), d))
                else:
                    lines.append("let %s = input %s D:%s" % (nm, tok(lf["dims"], 1), d))
                if mode[0] == "repl":
                    lines.append("let %sr = batch::concat V:%s" % (nm, ",".join([nm] * B)))
                    nm = nm + "r"
            names.append((nm, list(lf["dims"])))
        # a chain of operations; shapes tracked without the batch
        cur = list(names)
        for k in range(r.choice([2, 3, 4, 5])):
            nm, dims = r.choice(cur)
            f = r.choice(["negative", "abs", "relu", "addk", "mulk", "ab", "ab", "slice", "flatten", "transpose", "sum", "max",
                          "flip", "broadcast", "matmul", "pick", "concat", "permute", "reshape", "stop_gradient", "min"])
            divisors = [names[i][0] for i, lf in enumerate(leaves) if lf.get("divisor")]
            if divisors and r.random() < 0.3:
                f = "divs"
            out = "t%d" % k

            def dim(d, i):
                return d[i] if i < len(d) else 1
            if f in ("negative", "abs", "relu", "flatten", "stop_gradient"):
                lines.append("let %s = %s %s" % (out, f, nm))
                nd = [volume(dims)] if f == "flatten" and volume(dims) > 1 else ([] if f == "flatten" else dims)
            elif f == "divs":
                if nm in divisors:
                    continue
                # the same division for every sample whether the divisor is shared or comes with the batch
                lines.append("let %s = divide %s %s" % (out, nm, divisors[0])); nd = dims
            elif f == "addk":
                lines.append("let %s = add %s %d" % (out, nm, r.randint(-2, 2))); nd = dims
            elif f == "mulk":
                lines.append("let %s = multiply %d %s" % (out, r.randint(-2, 2), nm)); nd = dims
            elif f == "ab":
                same = [(n2, d2) for (n2, d2) in cur if d2 == dims]
                n2, _ = r.choice(same)
                lines.append("let %s = %s %s %s" % (out, r.choice(["add", "subtract", "multiply"]), nm, n2)); nd = dims
            elif f == "slice":
                d = r.randrange(len(dims) + 1)
                lo = r.randrange(dim(dims, d))
                up = r.randint(lo + 1, dim(dims, d))
                lines.append("let %s = slice %s %d %d %d" % (out, nm, d, lo, up))
                nd = list(dims) + [1] * max(0, d + 1 - len(dims)); nd[d] = up - lo
            elif f == "transpose":
                if len(dims) > 2:
                    continue
                lines.append("let %s = transpose %s" % (out, nm)); nd = [dim(dims, 1), dim(dims, 0)]
            elif f in ("sum", "max", "min"):
                d = r.randrange(len(dims) + 1)
                lines.append("let %s = %s %s %d" % (out, f, nm, d))
                nd = list(dims) + [1] * max(0, d + 1 - len(dims)); nd[d] = 1
            elif f == "flip":
                d = r.randrange(len(dims) + 1)
                lines.append("let %s = flip %s %d" % (out, nm, d)); nd = dims
            elif f == "broadcast":
                ones = [i for i in range(len(dims) + 1) if dim(dims, i) == 1]
                d = r.choice(ones); s = r.choice([1, 2, 3])
                lines.append("let %s = broadcast %s %d %d" % (out, nm, d, s))
                nd = list(dims) + [1] * max(0, d + 1 - len(dims)); nd[d] = s
            elif f == "matmul":
                if len(dims) > 2:
                    continue
                cand = [(n2, d2) for (n2, d2) in cur if len(d2) <= 2 and dim(d2, 0) == dim(dims, 1)]
                if not cand:
                    continue
                n2, d2 = r.choice(cand)
                lines.append("let %s = matmul %s %s" % (out, nm, n2)); nd = [dim(dims, 0), dim(d2, 1)]
            elif f == "pick":
                d = r.randrange(len(dims) + 1)
                lines.append("let %s = pick %s I:%d %d" % (out, nm, r.randrange(dim(dims, d)), d))
                nd = list(dims) + [1] * max(0, d + 1 - len(dims)); nd[d] = 1
            elif f == "concat":
                d = r.randrange(len(dims) + 1)
                lines.append("let %s = concat V:%s,%s %d" % (out, nm, nm, d))
                nd = list(dims) + [1] * max(0, d + 1 - len(dims)); nd[d] *= 2
            elif f == "permute":
                n = max(len(dims), 1) + r.choice([0, 1])
                perm = list(range(n)); r.shuffle(perm)
                lines.append("let %s = permute_dims %s I:%s" % (out, nm, ",".join(map(str, perm))))
                nd = [dim(dims, p) for p in perm]
            elif f == "reshape":
                lines.append("let %s = reshape %s %s" % (out, nm, tok([volume(dims)], 1))); nd = [volume(dims)]
            else:
                continue
            while nd and nd[-1] == 1:
                nd.pop()
            cur.append((out, nd))
        last = cur[-1][0]
        lines.append("force " + last)
        lines.append("backward " + last)
        for i, lf in enumerate(leaves):
            if lf["param"] and not lf["batched"]:
                lines.append("grad l%d" % i)
        return lines
    return build, leaves


def metamorphic_streams(rng, tier):
    """[(B, build, leaves)] — see run_metamorphic."""
    n = 25 if tier == "quick" else 250
    out = []
    for _ in range(n):
        # mostly small batches; some at and around 8..12 (folding a batch into a shared operand may take another path there)
        B = rng.choice([2, 2, 3, 4, 2, 3, 2, 3, 9, 12])
        pattern = rng.choice([[True, False], [True, True], [False, True], [True, False, False]])
        build, leaves = _meta_program(rng, B, pattern)
        out.append((B, build, leaves))
    return out


def run_metamorphic(chk, variant="asan"):
    """C03: program(batch) == batch::concat_b(program(sample_b)); program(x with batch 1) == program(batch::concat of
    B copies of x); the gradient of a batch-1 parameter == sum over the samples of the per-sample gradients.  Exact on
    integers."""
    exe = build.build_harness(HARNESS, variant)
    progs = metamorphic_streams(chk.rng, chk.tier)
    done = 0
    for (B, build_, leaves) in progs:
        full = build_(("full",))
        repl = build_(("repl",))
        samples = [build_(("sample", b)) for b in range(B)]

        def run(lines):
            impl, _ = vrun.run_impl(exe, lines, stateful=True)
            chk.traces += 1
            for l, o in zip(lines, impl):
                chk.count(l, o, o.startswith("ok"))
            return impl

        def pick(lines, impl, what):
            return [values_of(o) if what == "force" else o for l, o in zip(lines, impl) if l.split(" ")[0] == what]
        fi, ri = run(full), run(repl)
        si = [run(s) for s in samples]
        rp = {"family": FAMILY, "harness": HARNESS, "variant": variant, "stateful": True, "lines": full,
              "replicated": repl, "samples": samples}
        key = "funcs:metamorphic:" + ";".join(call_key(l) for l in full if l.startswith("let t"))
        if any(o.startswith("crash") for o in fi + ri + sum(si, [])):
            chk.report(key + ":crash", "a program of the metamorphic run crashes", rp)
            continue
        fv = pick(full, fi, "force")
        if not fv or fv[0] is None:
            # the program was rejected: then every variant must be rejected as well
            if any((pick(s, i, "force") or [None])[0] is not None for s, i in zip(samples, si)) and all(l["batched"] or True for l in leaves):
                # a sample program may be valid where the batched one is not only through batch compatibility: not generated
                chk.report(key + ":accept", "the batched program is rejected (%s), a per-sample program is accepted" % [o for o in fi if o.startswith("err")][:1], rp)
            continue
        done += 1
        fd, fb, fvals = fv[0]
        rv = pick(repl, ri, "force")
        # a result without a batch is shared by all samples
        want_repl = (fd, B, fvals if fb == B else fvals * B)
        if not rv or rv[0] is None or rv[0] != want_repl:
            chk.report(key + ":replicate", "program(x with batch 1) differs from program(batch::concat of %d copies of x): %s vs %s" % (B, fv[0], rv[0] if rv else None), rp)
            continue
        vol = volume(fd)
        ok = True
        for b in range(B):
            sv = pick(samples[b], si[b], "force")
            if not sv or sv[0] is None:
                chk.report(key + ":sample-rejected", "the program of sample %d is rejected, the batched program is accepted" % b, rp)
                ok = False
                break
            sd, sb, svals = sv[0]
            want = fvals[b * vol:(b + 1) * vol] if fb > 1 else fvals
            if sd != fd or sb != 1 or svals != want:
                chk.report(key + ":sample", "sample %d of program(batch) is %s, program(sample %d) gives %s" % (b, want, b, svals), rp)
                ok = False
                break
        if not ok:
            continue
        # gradients of batch-1 parameters: sum over the samples (only when the result carries the batch,
        # otherwise each sample program sees the whole gradient)
        if fb == B and not any(" = divide " in l for l in full):
            # (with a division in the program the values are not integers and the order of the gradient sum shows)
            fg = pick(full, fi, "grad")
            sgs = [pick(s, i, "grad") for s, i in zip(samples, si)]
            for gi, g in enumerate(fg):
                gw = g.split(" ")
                if gw[0] != "ok" or len(gw) < 3:
                    continue
                tot = None
                for sg in sgs:
                    w = sg[gi].split(" ")
                    vals = [decode(t) for t in w[2].split(",")]
                    tot = vals if tot is None else [a + c for a, c in zip(tot, vals)]
                got = [decode(t) for t in gw[2].split(",")]
                if tot != got:
                    chk.report(key + ":gradient", "the gradient of a batch-1 parameter is %s, the sum of the per-sample gradients is %s" % (got, tot), rp)
                    break
    chk.extra_cov["metamorphic_programs_accepted"] = done
    return done


# --------------------------------------------------------------------------
# C10: rejected calls leave the graph and all live values unchanged; no crash

def malformed_streams(rng, tier):
    """Programs where every malformed call is bracketed by `nops` and `force` of live variables."""
    n = 12 if tier == "quick" else 120
    streams = []
    for _ in range(n):
        g = Gen(rng, ("naive", "naive2", "eigen"))
        try:
            p = g.new_param([2, 2])
            a = g.new_input([2, 2], 1)
            s = g.new_input([], 1)
            live = []
            for _ in range(4):
                v = g.valid_call()
                if v is not None and v.n is None and not v.lazy and not v.random and v.graph == 0:
                    live.append(v.name)
            live = live[-3:] + [a.name, s.name]
            for _ in range(rng.choice([6, 10])):
                g.emit("nops")
                for nm in live:
                    g.emit("force " + nm)
                g.emit("value " + p.name)
                if rng.random() < 0.3:
                    # a scalar node of one graph combined with a node of the other graph
                    g.emit("graph 1")
                    g.graph = 1
                    o = g.new_input(rng.choice([[], [2, 2]]), 1)
                    g.emit("nops")
                    if o is not None:
                        xs = [s.name, o.name] if rng.random() < 0.5 else [o.name, rng.choice([s.name, a.name])]
                        g.let(rng.choice(["add", "subtract", "multiply", "divide", "pow", "op+", "op*", "matmul"]), xs)
                    g.emit("graph 0")
                    g.graph = 0
                else:
                    g.invalid_call()
                g.emit("nops")
                for nm in live:
                    g.emit("force " + nm)
                g.emit("value " + p.name)
            # the operator counts are read immediately before and after every call
            lines = []
            for l in g.lines:
                if l.startswith("let "):
                    lines += ["nops", l, "nops"]
                elif l != "nops":
                    lines.append(l)
            streams.append(lines)
        finally:
            g.close()
    return streams


def run_malformed(chk, variant="asan"):
    """C10: a rejected call raises primitiv::Error (no crash), the graphs keep their operators and every live value
    (nodes, tensors, parameters) reads back unchanged."""
    streams = malformed_streams(chk.rng, chk.tier)
    exe = build.build_harness(HARNESS, variant)
    checked = 0
    for lines in streams:
        impl, reports = vrun.run_impl(exe, lines, stateful=True)
        chk.traces += 1
        snap = {}
        last_let = None
        for i, (l, o) in enumerate(zip(lines, impl)):
            chk.count(l, o, o.startswith("ok"))
            w = l.split(" ")
            rp = {"family": FAMILY, "harness": HARNESS, "variant": variant, "stateful": True, "lines": lines[:i + 1]}
            if o.startswith("crash"):
                chk.report("funcs:malformed:crash:" + call_key(l), "%s: the call crashes (%s) instead of raising primitiv::Error" % (l, o), rp)
                break
            if w[0] == "let":
                last_let = (i, l, o)
                if o.startswith("err") and 0 < i < len(lines) - 1 and lines[i - 1] == "nops" and lines[i + 1] == "nops":
                    checked += 1
                    if impl[i - 1] != impl[i + 1] and not impl[i + 1].startswith("crash"):
                        rp["lines"] = lines[:i + 2]
                        chk.report("funcs:malformed:graph-changed:" + call_key(l),
                                   "%s is rejected but the graphs changed from `%s` to `%s` operators" % (l, impl[i - 1], impl[i + 1]), rp)
            if w[0] in ("force", "value"):
                k = w[0] + " " + w[1]
                if k in snap and snap[k] != o:
                    chk.report("funcs:malformed:value-changed:" + call_key(last_let[1] if last_let else l),
                               "%s read `%s` before and `%s` after %s" % (k, snap[k][:120], o[:120], last_let[1] if last_let else "?"), rp)
                snap[k] = o
    chk.extra_cov["malformed_rejected_calls_checked"] = checked
    return checked
