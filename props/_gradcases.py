CASES = (["unary:" + f for f in "positive negative abs sqrt exp log tanh sigmoid softplus sin cos tan relu lrelu prelu elu selu flatten transpose stop_gradient copy copy_cross dropout_off square fanout".split()]
  + ["const:" + f for f in "addr addl subr subl mulr mull divr divl powr powl pown".split()]
  + ["binary:%s:%s" % (f, v) for f in "add subtract multiply divide pow".split() for v in "11 1N N1 NN sl sr".split()]
  + ["matmul"] + ["axis:" + f for f in "sum mean max min logsumexp softmax log_softmax flip".split()]
  + ["broadcast", "pick", "slice", "split", "concat", "permute", "reshape", "conv2d", "max_pool2d"]
  + ["batch:" + f for f in "pick slice split concat sum mean normalize".split()]
  + ["sce_sparse", "sce_dense", "dag"])
