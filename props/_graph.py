"""Generator, symbol table and implementation-side oracles of the `graph` family
(shared by C05, C06, C01, C10, C11)."""
import re
from vlib import run as vrun, check as vcheck, build

DRIVERS = ["graph"]


class Sym:
    """What can be known about a history from the operation lines and the
    *implementation's* answers alone (independent of the Lean model)."""

    def __init__(self):
        self.nodes = {}      # node id -> (g, oid, vid)
        self.ops = {}        # (g, oid) -> (kind, [arg node ids], param)
        self.nops = {}       # g -> number of operators
        self.nnodes = 0
        self.nparams = 0
        self.ngraphs = 0

    def feed(self, line, out):
        w = line.split()
        if not out.startswith("ok"):
            return
        if w[0] == "param":
            self.nparams += 1
        elif w[0] == "graph":
            self.nops[self.ngraphs] = 0
            self.ngraphs += 1
        elif w[0] in ("P", "I", "L", "M", "S", "N", "R", "F"):
            g = int(w[1])
            oid = self.nops.get(g, 0)
            ids = [int(t[1:]) for t in out.split()[1:]]
            if w[0] == "L":
                args = [int(t[1:]) for t in w[4:]]
            elif w[0] in ("M", "S", "N", "F"):
                args = [int(t[1:]) for t in w[2:]]
            else:
                args = []
            self.ops[(g, oid)] = (w[0], args, int(w[2]) if w[0] == "P" else None)
            for vid, n in enumerate(ids):
                self.nodes[n] = (g, oid, vid)
            self.nops[g] = oid + 1

    def ancestors_params(self, n, through_blockers=True):
        """Parameters that are ancestors of node n. With through_blockers=False
        paths through S / N (stop-gradient like) operators are not followed."""
        seen, todo, ps = set(), [n], set()
        while todo:
            x = todo.pop()
            if x in seen or x not in self.nodes:
                continue
            seen.add(x)
            g, oid, _ = self.nodes[x]
            kind, args, p = self.ops[(g, oid)]
            if kind == "P":
                ps.add(p)
            if kind in ("S", "N") and not through_blockers:
                continue
            todo += args
        return ps


def vec(rng, D, lo=-3, hi=3):
    return ",".join(str(rng.randint(lo, hi)) for _ in range(D))


def history(rng, maxlen=40, malformed=False):
    """One stateful history. Returns the list of lines."""
    D = rng.choice([1, 2, 3])
    lines = ["D %d" % D]
    nparams = rng.choice([1, 2, 2, 3])
    pdev = []
    for q in range(nparams):
        lines.append("param " + vec(rng, D))
        pdev.append(0)
        if rng.random() < 0.3:
            # re-initialised with an Initializer before first use, half of the time onto another device object
            pdev[q] = rng.choice([0, 1])
            lines.append("pinit %d %d %d" % (q, pdev[q], rng.randint(-3, 3)))
    ngraphs = rng.choice([1, 1, 1, 2])
    for _ in range(ngraphs):
        lines.append("graph")
    # generator-side bookkeeping (optimistic: assumes creations succeed, which they do for well-formed lines)
    nodes = {g: [] for g in range(ngraphs)}
    allnodes = []
    nn = 0
    forced = []

    def newnodes(g, k):
        nonlocal nn
        ids = list(range(nn, nn + k))
        nn += k
        nodes[g] += ids
        allnodes.extend(ids)
        return ids

    for g in range(ngraphs):
        for p in range(nparams):
            if rng.random() < 0.8:
                lines.append("P %d %d" % (g, p)); newnodes(g, 1)
    steps = rng.randint(maxlen // 3, maxlen)
    for _ in range(steps):
        g = rng.randrange(ngraphs)
        r = rng.random()
        have = nodes[g]
        if r < 0.50:
            k = rng.random()
            if k < 0.08:
                lines.append("P %d %d" % (g, rng.randrange(nparams))); newnodes(g, 1)
            elif k < 0.16:
                lines.append("I %d %s" % (g, vec(rng, D))); newnodes(g, 1)
            elif k < 0.22:
                lines.append("R %d" % g); newnodes(g, 1)
            elif not have:
                lines.append("I %d %s" % (g, vec(rng, D))); newnodes(g, 1)
            elif k < 0.62:
                na = rng.choice([1, 2, 2, 3])
                nr = rng.choice([1, 1, 2, 3])
                args = [rng.choice(have[-6:] if rng.random() < 0.7 else have) for _ in range(na)]
                if rng.random() < 0.15 and na >= 2:
                    args[1] = args[0]          # the same node twice
                rows = ";".join(",".join(str(rng.choice([-1, 0, 1, 1, 2])) for _ in range(na)) for _ in range(nr))
                lines.append("L %d %s ; %s" % (g, rows, " ".join("n%d" % a for a in args))); newnodes(g, nr)
            elif k < 0.78:
                a, b = rng.choice(have), rng.choice(have)
                if rng.random() < 0.2:
                    b = a
                lines.append("M %d n%d n%d" % (g, a, b)); newnodes(g, 1)
            elif k < 0.86:
                lines.append("S %d n%d" % (g, rng.choice(have))); newnodes(g, 1)
            elif k < 0.92:
                lines.append("F %d n%d" % (g, rng.choice(have))); newnodes(g, 1)
            else:
                lines.append("N %d n%d" % (g, rng.choice(have))); newnodes(g, 1)
        elif r < 0.64 and allnodes:
            n = rng.choice(allnodes[-8:] if rng.random() < 0.6 else allnodes)
            lines.append("%s n%d" % ("gforce" if rng.random() < 0.25 else "force", n)); forced.append(n)
        elif r < 0.70 and forced:
            lines.append("force n%d" % rng.choice(forced))        # re-request: value must not change
        elif r < 0.82 and allnodes:
            n = rng.choice(allnodes[-8:] if rng.random() < 0.6 else allnodes)
            # probe block: gradients before, two backward passes, gradients after each
            for p in range(nparams):
                lines.append("grad %d" % p)
            bw = "gbackward" if rng.random() < 0.3 else "backward"    # Graph::backward(node) / Node::backward()
            lines.append("%s n%d" % (bw, n))
            for p in range(nparams):
                lines.append("grad %d" % p)
            if rng.random() < 0.5:
                lines.append("%s n%d" % (bw, n))
                for p in range(nparams):
                    lines.append("grad %d" % p)
        elif r < 0.86:
            lines.append("padd %d %s" % (rng.randrange(nparams), vec(rng, D, -2, 2)))
        elif r < 0.89:
            lines.append("pgrad %d %s" % (rng.randrange(nparams), vec(rng, D, -5, 5)))
        elif r < 0.915:
            p = rng.randrange(nparams)
            lines.append("reset %d" % p); lines.append("grad %d" % p)
        elif r < 0.92:
            p = rng.randrange(nparams)       # re-initialised in the middle of training, on the device it lives on
            lines.append("pinit %d %d %d" % (p, pdev[p], rng.randint(-3, 3))); lines.append("grad %d" % p)
        elif r < 0.95:
            lines.append("failin %d" % rng.choice([0, 0, 1, 2, 3]))
        elif r < 0.97:
            lines.append("rndpos")
        elif malformed and allnodes and ngraphs > 1:
            og = (g + 1) % ngraphs
            if nodes[og]:
                a = rng.choice(nodes[og])
                b = rng.choice(have) if have else a
                lines.append(rng.choice(["M %d n%d n%d" % (g, a, b), "M %d n%d n%d" % (g, b, a), "N %d n%d" % (g, a),
                                         "L %d 1,1 ; n%d n%d" % (g, b, a)]))
                # rejected: no node ids are assigned; the generator's numbering stays right only if it IS rejected
        else:
            lines.append("pval %d" % rng.randrange(nparams))
    # epilogue: everything observable
    for n in forced[-6:]:
        lines.append("force n%d" % n)
    for p in range(nparams):
        lines.append("grad %d" % p); lines.append("pval %d" % p)
    for g in range(ngraphs):
        lines.append("counters %d" % g)
    lines.append("rndpos")
    return lines


def parse_vals(out):
    m = re.match(r"ok ([-0-9,]*)", out)
    if not m:
        return None
    return [int(x) for x in m.group(1).split(",") if x != ""]


def parse_log(out):
    if "|" not in out:
        return []
    return [int(x) for x in out.split("|", 1)[1].split()]


def oracle(lines, outs):
    """Implementation-side oracles over one history. Returns a list of
    (property, key, what, index)."""
    sym = Sym()
    found = []
    evaluated = {}          # (g, oid) -> times
    first_value = {}        # node -> values at first force
    cur = {}                # p -> gradient read since the last backward
    rnd_evals = 0
    block = None            # the last backward: gradients before it, increments seen after it
    for i, (l, o) in enumerate(zip(lines, outs)):
        if o == "skipped":
            break
        w = l.split()
        if w and w[0] in ("gforce", "gbackward"):
            w[0] = w[0][1:]              # the same requests through Graph::forward / Graph::backward
        if o.startswith("crash"):
            found.append(("C10", "graph:crash:%s" % w[0], "`%s` crashes (%s)" % (l, o), i))
            break
        sym.feed(l, o)
        if w[0] in ("force", "backward") and (o.startswith("ok") or o.startswith("err")):
            n = int(w[1][1:])
            if n in sym.nodes:
                g = sym.nodes[n][0]
                for oid in parse_log(o):
                    evaluated[(g, oid)] = evaluated.get((g, oid), 0) + 1
                    if evaluated[(g, oid)] > 1:
                        found.append(("C05", "graph:evaluated-twice", "operator %d of graph %d was evaluated %d times (line `%s`)" % (oid, g, evaluated[(g, oid)], l), i))
                    if sym.ops.get((g, oid), ("?",))[0] == "R":
                        rnd_evals += 1
                    # only ancestors of the requested node may be evaluated
                anc = set()
                todo = [n]
                while todo:
                    x = todo.pop()
                    if x in anc or x not in sym.nodes:
                        continue
                    anc.add(x)
                    todo += sym.ops[(sym.nodes[x][0], sym.nodes[x][1])][1]
                anc_ops = {(sym.nodes[x][0], sym.nodes[x][1]) for x in anc}
                for oid in parse_log(o):
                    if (g, oid) not in anc_ops:
                        found.append(("C05", "graph:non-ancestor-evaluated", "operator %d of graph %d is not an ancestor of n%d but was evaluated by `%s`" % (oid, g, n, l), i))
        if w[0] == "force" and o.startswith("ok"):
            n = int(w[1][1:])
            v = parse_vals(o)
            if n in sym.nodes and sym.ops[(sym.nodes[n][0], sym.nodes[n][1])][0] != "P":
                if n in first_value and first_value[n] != v:
                    found.append(("C05", "graph:value-changed", "value of n%d changed from %s to %s" % (n, first_value[n], v), i))
                first_value.setdefault(n, v)
        if w[0] == "rndpos" and o.startswith("ok"):
            pos = int(o.split()[1])
            if pos != rnd_evals:
                found.append(("C05", "graph:random-stream-position", "random stream at %d after %d evaluated random nodes" % (pos, rnd_evals), i))
        if w[0] == "grad" and o.startswith("ok"):
            p = int(w[1])
            v = parse_vals(o)
            if block is not None and block["ok"] and p in block["before"] and block["n"] in sym.nodes:
                n = block["n"]
                inc = [a - b for a, b in zip(v, block["before"][p])]
                big = any(abs(x) > 30000 for x in v + block["before"][p])
                if p not in sym.ancestors_params(n) and any(inc):
                    found.append(("C06", "graph:non-ancestor-gradient-changed", "gradient of parameter %d changed by %s in backward(n%d) although it is not an ancestor" % (p, inc, n), i))
                elif p not in sym.ancestors_params(n, through_blockers=False) and any(inc):
                    found.append(("C06", "graph:blocked-gradient-changed", "gradient of parameter %d changed by %s in backward(n%d) although it is reachable only through stop_gradient" % (p, inc, n), i))
                # closed-form derivative where the history gives one without any model: the target is a Parameter
                # node itself (d sum(w)/dw = 1), counted once per Parameter operator of p that is the target
                g0, oid0, _ = sym.nodes[n]
                kind0, _, p0 = sym.ops[(g0, oid0)]
                if kind0 == "P" and not big:
                    want = [1] * len(inc) if p0 == p else [0] * len(inc)
                    if inc != want:
                        found.append(("C06", "graph:backward-on-parameter-node", "backward(n%d) on the Parameter node of parameter %d added %s to the gradient of parameter %d (the derivative of the sum of its elements is %s)" % (n, p0, inc, p, want), i))
                        found.append(("C01", "graph:backward-on-parameter-node", "backward(n%d) on the Parameter node of parameter %d added %s to the gradient of parameter %d, expected %s" % (n, p0, inc, p, want), i))
                prev = block["prev_incs"].get(p)
                if prev is not None and prev != inc and not big:
                    found.append(("C06", "graph:repeated-backward-differs", "second backward(n%d) added %s to parameter %d, the first added %s" % (n, inc, p, prev), i))
                block["incs"][p] = inc
            if i > 0 and lines[i - 1].split()[:2] == ["reset", w[1]] and outs[i - 1].startswith("ok") and any(v):
                found.append(("C06", "graph:reset-not-zero", "gradient of parameter %s after reset_gradient is %s" % (w[1], v), i))
            cur[p] = v
        elif w[0] == "backward":
            n = int(w[1][1:])
            same = block is not None and block["n"] == n and block["ok"]
            block = {"n": n, "before": dict(cur), "ok": o.startswith("ok"), "incs": {},
                     "prev_incs": dict(block["incs"]) if same else {}}
            cur = {}
        elif w[0] in ("pgrad", "reset", "padd", "failin", "pinit"):
            block = None
            if w[0] == "pinit":
                cur.pop(int(w[1]), None)
            if w[0] == "pgrad" and o.startswith("ok"):
                cur[int(w[1])] = [int(x) for x in w[2].split(",")]
            elif w[0] == "reset":
                cur.pop(int(w[1]), None)
    return found


def streams(rng, tier, malformed=True):
    n = 250 if tier == "quick" else 6000
    maxlen = 40 if tier == "quick" else 80
    return [history(rng, maxlen if rng.random() < 0.8 else maxlen * 2, malformed=malformed and rng.random() < 0.3) for _ in range(n)]


def run_family(chk, props, devices=("naive", "eigen"), tier=None):
    """Correspondence of the graph family + oracles; reports findings whose
    property is in `props` under chk."""
    tier = tier or chk.tier
    sts = streams(chk.rng, tier)
    corpus_path = build.VERIF + "/corpus/graph.ops"
    import os
    if os.path.exists(corpus_path):
        cur = []
        hist = []
        for l in open(corpus_path):
            l = l.strip()
            if l == "---":
                if cur:
                    hist.append(cur)
                cur = []
            elif l and not l.startswith("#"):
                cur.append(l)
        if cur:
            hist.append(cur)
        sts = hist + sts
    exe = build.build_harness("h_graph")
    total_dis = 0
    first_outs = {}
    for di, dev in enumerate(devices):
        use = sts if di == 0 else sts[: max(20, len(sts) // 5)]
        for si, lines in enumerate(use):
            impl, reports = vrun.run_impl(exe, lines, stateful=True, args=[dev], timeout=120)
            if di == 0:
                first_outs[si] = impl
            elif "C08" in props and si in first_outs and first_outs[si] != impl:
                k = next(i for i in range(len(lines)) if first_outs[si][i] != impl[i])
                chk.report("graph:backends-differ:" + lines[k].split()[0],
                           "the same history gives `%s` on %s and `%s` on %s at `%s`" % (first_outs[si][k], devices[0], impl[k], dev, lines[k]),
                           {"family": "graph", "harness": "h_graph", "harness_args": [dev], "stateful": True, "lines": lines[: k + 1],
                            "observed_%s" % devices[0]: first_outs[si][k], "observed_%s" % dev: impl[k]})
            model = vrun.run_model("graph", lines)
            chk.traces += 1
            for i, l in enumerate(lines):
                if impl[i] == "skipped":
                    break
                chk.count(l, impl[i], impl[i].startswith("ok") and l.split()[0] in ("force", "backward", "gforce", "gbackward", "grad", "L", "M", "S", "N", "R", "P", "F"))
            if len(chk.samples) < 4 and chk.rng.random() < 0.05:
                chk.samples.append({"family": "graph", "device": dev, "history": lines[:25], "impl_tail": impl[-6:]})
            # oracles on the implementation alone
            for (prop, key, what, idx) in oracle(lines, impl):
                if prop in props:
                    if any(v["key"] == key for v in chk.violations) or chk.match_known(key):
                        chk.report(key, what, {})          # counted (or matched as known) without minimising it again
                        continue
                    def still(ls, prop=prop, key=key):
                        im, _ = vrun.run_impl(exe, ls, stateful=True, args=[dev], timeout=60)
                        return any(p == prop and k == key for (p, k, _, _) in oracle(ls, im))
                    small = vcheck.shrink(lines[: idx + 1], still, max_runs=40)
                    chk.report(key, what, {"family": "graph", "harness": "h_graph", "harness_args": [dev], "stateful": True,
                                           "lines": small, "observed": what})
            # correspondence
            for i, l in enumerate(lines):
                if impl[i] == "skipped":
                    break
                if not vrun.same(impl[i], model[i]):
                    total_dis += 1
                    ckey = "correspondence:graph:" + l.split()[0]
                    if any(v["key"] == ckey for v in chk.violations) or any(p in props for (p, _, _, _) in oracle(lines, impl)):
                        break   # this disagreement is already reported (with its minimised history) or has a failing input
                    def differs(ls):
                        im, _ = vrun.run_impl(exe, ls, stateful=True, args=[dev], timeout=60)
                        mo = vrun.run_model("graph", ls)
                        return any(not vrun.same(a, b) for a, b in zip(im, mo) if a != "skipped")
                    small = vcheck.shrink(lines[: i + 1], differs, max_runs=40)
                    if any(p in props for (p, _, _, _) in oracle(lines, impl)):
                        break   # already reported with a failing input
                    chk.report("correspondence:graph:" + l.split()[0],
                               "model and implementation disagree at `%s` (impl `%s`, model `%s`); no property violation was observed on the implementation by the oracles, so the Lean model of graph.cc no longer describes the code" % (l, impl[i], model[i]),
                               {"family": "graph", "harness": "h_graph", "harness_args": [dev], "stateful": True, "lines": small,
                                "observed_impl": impl[i], "model": model[i], "broken": "correspondence graph/h_graph"}, found_input=False)
                    break
            for r in reports:
                if r.get("at_exit") and "C11" in props:
                    chk.report("graph:sanitizer-at-exit:" + r["kind"], "sanitizer report at exit: " + r["kind"],
                               {"family": "graph", "harness": "h_graph", "harness_args": [dev], "stateful": True, "lines": lines, "stderr": r.get("stderr", "")[-1500:]})
    return total_dis
