"""Family `karith` (arithmetic kernels of primitiv::Device, forward and backward,
both CPU backends) — library used by props/C01.py, C02.py, C03.py, C08.py,
C11.py and by the pseudo-property KARITH.

    MODS[prop]          Lean modules whose theorems are the obligations of `prop`
    DRIVERS             model drivers needed
    translators()       regenerate Gen/Elementwise.lean from the working tree
    streams(rng, tier)  generated operation lines + their meta data
    run_family(chk, prop)

One correspondence run serves the five properties; what is *reported* depends on
the property:

  C01  backward kernels: `<k>_grad` lines (bw(fw(x)) on the real library against
       gy·f'(x) obtained by the model from the generated FORWARD formula with dual
       numbers) and `<k>_bw` lines against the model's backward kernels (proved to be
       the adjoint of the forward linearisation in Props/C01/Arith.lean)
  C02  forward kernels against the model (= the specification, Props/C02/Arith.lean),
       matmul/conv2d/max_pool2d also against an independent Python oracle written over
       multi-indices; large-magnitude inputs of the stabilised functions must stay finite
  C03  metamorphic: kernel(batch) == per-sample kernels; the gradient of a batch-1
       operand is the sum of the per-sample gradients
  C08  every line is executed on Naive and on Eigen: same acceptance, same shapes, same
       values (exact domain: numerically equal; otherwise within tolerance)
  C11  sanitizer reports, crashes, a canary surviving in a forward result
"""
import math, os, struct, re
from vlib import build, run as vrun
from translate import elementwise

MODS = {
    "C01": ["PrimitivModel.Props.C01.Arith"],
    "C02": ["PrimitivModel.Props.C02.Arith"],
    "C03": ["PrimitivModel.Props.C03.Arith"],
    "C08": ["PrimitivModel.Props.C08.Arith"],
    "C11": ["PrimitivModel.Props.C11.Arith"],
    "C10": ["PrimitivModel.Props.C11.Arith"],   # front-end guard theorems are shared with C11
}
DRIVERS = ["karith"]
FAMILY, HARNESS = "karith", "h_karith"
PROPS = ["C01", "C02", "C03", "C08", "C10", "C11"]
TOL = 2.0 ** -18
W = 2 ** 32

STATED_NOT_PROVED = {
    "C01": ["Primitiv.C01.Arith.pown_bw_is_derivative_full (false at x = 0 for k >= 0 on the pinned tree: witness pown_bw_zero_witness)"],
    "C02": [],
    "C03": [],
    "C08": [],
    "C11": [],
}


def translators():
    """Regenerate the generated Lean module from $VERIF_REPO. Returns notes."""
    notes = []
    bad = elementwise.selftest()
    if bad:
        notes.append("translator self-test failed: %r" % (bad[:2],))
    path, changed, differs = elementwise.generate()
    if differs:
        notes.append("Gen/Elementwise.lean differs from translate/golden/Elementwise.lean: the elementwise formulas of the working tree are not those of the pinned tree")
    return notes


# ----------------------------------------------------------------------------
# values and tokens
# ----------------------------------------------------------------------------
def f32(x):
    try:
        return struct.unpack("f", struct.pack("f", x))[0]
    except OverflowError:
        return math.copysign(math.inf, x)


def vtok(x):
    """token of a float32-representable value"""
    x = f32(x)
    if x == int(x) and abs(x) < 2 ** 20:
        return str(int(x))
    return "x%016x" % struct.unpack("<Q", struct.pack("<d", x))[0]


def ttok(dims, batch, vals):
    return "T:%s/%d:%s" % (",".join(map(str, dims)), batch, ",".join(vtok(v) for v in vals))


def prod(l):
    r = 1
    for d in l:
        r *= d
    return r


def trim(d):
    d = list(d)
    while d and d[-1] == 1:
        d.pop()
    return d


class TT(object):
    """a tensor value of the generator: dims, batch, column-major values (batch last)"""

    def __init__(self, dims, batch, vals):
        self.dims, self.batch, self.vals = list(dims), batch, list(vals)

    @property
    def vol(self):
        return prod(self.dims)

    def tok(self):
        return ttok(self.dims, self.batch, self.vals)

    def sample(self, b):
        if self.batch == 1:
            return self
        v = self.vol
        return TT(self.dims, 1, self.vals[b * v:(b + 1) * v])

    def zeros(self):
        return TT(self.dims, self.batch, [0] * len(self.vals))


def decode_val(tok):
    if tok == "C":
        return "C"
    if tok.startswith("h"):
        return struct.unpack(">f", bytes.fromhex(tok[1:]))[0]
    if tok.startswith("x"):
        return struct.unpack(">d", bytes.fromhex(tok[1:]))[0]
    return int(tok)


def decode(out):
    """'ok [..]xB v,.. | [..]xB v,..' -> ('ok', [(shape, [values])]); other outcomes -> (out, None)"""
    if not out.startswith("ok "):
        return out, None
    res = []
    for part in out[3:].split(" | "):
        sh, _, vs = part.partition(" ")
        res.append((sh, [decode_val(t) for t in vs.split(",")] if vs else []))
    return "ok", res


def close(iv, mv, cls):
    """implementation value (float32) against a reference value (int/double)"""
    if iv == "C" or mv == "C":
        return False
    if isinstance(mv, int):
        try:
            return float(iv) == float(mv)
        except OverflowError:
            return False
    m = f32(mv)
    if m != m or iv != iv:
        return m != m and iv != iv
    if iv == m:
        return True
    if cls == "exact" or math.isinf(iv) or math.isinf(m):
        return False
    return abs(iv - m) <= TOL * max(1.0, abs(m))


def same_out(impl, model, cls):
    si, ri = decode(impl)
    sm, rm = decode(model)
    if si != sm:
        return False
    if ri is None:
        return True
    if len(ri) != len(rm):
        return False
    for (sha, va), (shb, vb) in zip(ri, rm):
        if sha != shb or len(va) != len(vb):
            return False
        if not all(close(a, b, cls) for a, b in zip(va, vb)):
            return False
    return True


def same_backends(a, b, cls):
    """two implementation outputs"""
    sa, ra = decode(a)
    sb, rb = decode(b)
    if sa != sb:
        return False
    if ra is None:
        return True
    if len(ra) != len(rb):
        return False
    for (sha, va), (shb, vb) in zip(ra, rb):
        if sha != shb or len(va) != len(vb):
            return False
        for x, y in zip(va, vb):
            if x == "C" or y == "C":
                return False
            if x != x or y != y:
                if not (x != x and y != y):
                    return False
                continue
            if x == y:
                continue
            if cls == "exact" or math.isinf(x) or math.isinf(y):
                return False
            if abs(x - y) > 2 * TOL * max(1.0, abs(x)):
                return False
    return True


# ----------------------------------------------------------------------------
# independent oracle over multi-indices (exact domain): matmul, conv2d, max_pool2d
# ----------------------------------------------------------------------------
LOWEST = -(2 ** 128 - 2 ** 104)


def spec_matmul(a, b):
    da, db = (a.dims + [1, 1])[:2], (b.dims + [1, 1])[:2]
    if len(a.dims) > 2 or len(b.dims) > 2 or da[1] != db[0] or not (a.batch == b.batch or a.batch == 1 or b.batch == 1):
        return None
    I, J, K, B = da[0], da[1], db[1], max(a.batch, b.batch)
    out = []
    for n in range(B):
        sa, sb = a.sample(n).vals, b.sample(n).vals
        for k in range(K):
            for i in range(I):
                out.append(sum(sa[i + I * j] * sb[j + J * k] for j in range(J)))
    return TT(trim([I, K]), B, out)


def spec_conv2d(x, w, p0, p1, s0, s1, d0, d1):
    """true 2-D convolution (the kernel is flipped), zero padding, stride, dilation"""
    xd, wd = (x.dims + [1, 1, 1])[:3], (w.dims + [1, 1, 1, 1])[:4]
    H, Wd, C = xd
    KH, KW, KC, OC = wd
    if len(x.dims) > 3 or len(w.dims) > 4 or KC != C or min(s0, s1, d0, d1) == 0:
        return None
    if not (x.batch == w.batch or x.batch == 1 or w.batch == 1):
        return None
    eh, ew = (KH - 1) * d0 + 1, (KW - 1) * d1 + 1
    if H + 2 * p0 < eh or Wd + 2 * p1 < ew:
        return None
    OH, OW = (H + 2 * p0 - eh) // s0 + 1, (Wd + 2 * p1 - ew) // s1 + 1
    B = max(x.batch, w.batch)
    if OH * OW * OC * B > 400:
        return "big"
    out = []
    for n in range(B):
        xs, ws = x.sample(n).vals, w.sample(n).vals
        X = lambda h, v, c: xs[h + H * (v + Wd * c)] if 0 <= h < H and 0 <= v < Wd else 0
        for oc in range(OC):
            for ow in range(OW):
                for oh in range(OH):
                    acc = 0
                    for c in range(C):
                        for kw in range(KW):
                            for kh in range(KH):
                                # y[oh,ow] = sum_k  x[oh*s - p + (K-1-k)*d] * w[k]  (convolution, not correlation)
                                acc += X(oh * s0 - p0 + (KH - 1 - kh) * d0, ow * s1 - p1 + (KW - 1 - kw) * d1, c) * \
                                    ws[kh + KH * (kw + KW * (c + C * oc))]
                    out.append(acc)
    return TT(trim([OH, OW, OC]), B, out)


def spec_max_pool2d(x, w0, w1, p0, p1, s0, s1):
    xd = (x.dims + [1, 1, 1])[:3]
    H, Wd, C = xd
    if len(x.dims) > 3 or min(w0, w1, s0, s1) == 0 or H + 2 * p0 < w0 or Wd + 2 * p1 < w1:
        return None
    OH, OW = (H + 2 * p0 - w0) // s0 + 1, (Wd + 2 * p1 - w1) // s1 + 1
    if OH * OW * C * x.batch > 400:
        return "big"
    out = []
    for n in range(x.batch):
        xs = x.sample(n).vals
        for c in range(C):
            for ow in range(OW):
                for oh in range(OH):
                    m = LOWEST  # padding counts as -infinity; the code uses lowest()
                    for a in range(w0):
                        for b in range(w1):
                            h, v = oh * s0 - p0 + a, ow * s1 - p1 + b
                            if 0 <= h < H and 0 <= v < Wd:
                                m = max(m, xs[h + H * (v + Wd * c)])
                    out.append(m)
    return TT(trim([OH, OW, C]), x.batch, out)


def spec_check(meta, impl):
    """the oracle's verdict on an implementation output, or None when it has no opinion"""
    sp = meta.get("spec")
    if sp is None:
        return None
    st, res = decode(impl)
    if st != "ok" or res is None:
        return "the oracle expects %s, the implementation answered `%s`" % (shape_str(sp), impl[:60])
    sh, vals = res[0]
    if sh != shape_str(sp):
        return "shape %s, the oracle expects %s" % (sh, shape_str(sp))
    for i, (a, b) in enumerate(zip(vals, sp.vals)):
        if not close(a, b, "exact"):
            return "element %d is %r, the oracle (definition over multi-indices) gives %r" % (i, a, b)
    return None


def shape_str(t):
    return "[%s]x%d" % (",".join(map(str, trim(t.dims))), t.batch)


# ----------------------------------------------------------------------------
# generators
# ----------------------------------------------------------------------------
UNARY = {  # name: (has_bw, lo, hi, keep away from 0)
    "negate": (False, -4, 4, False), "abs": (True, -4, 4, True), "sqrt": (True, 0.05, 9, False),
    "exp": (True, -6, 6, False), "log": (True, 0.05, 9, False), "tanh": (True, -4, 4, False),
    "sigmoid": (True, -8, 8, False), "softplus": (True, -8, 8, False), "sin": (True, -6, 6, False),
    "cos": (True, -6, 6, False), "tan": (True, -1.3, 1.3, False),
}
CONST = {  # name: (x lo, x hi, k lo, k hi, x away from 0, exact-capable)
    "add_const": (-4, 4, -4, 4, False, True), "subtract_const_r": (-4, 4, -4, 4, False, True),
    "subtract_const_l": (-4, 4, -4, 4, False, True), "multiply_const": (-4, 4, -4, 4, False, True),
    "divide_const_r": (-4, 4, 0.25, 4, False, False), "divide_const_l": (0.25, 4, -4, 4, False, False),
    "pow_const_r": (0.25, 4, -3, 3, False, False), "pow_const_l": (-3, 3, 0.25, 4, False, False),
    "prelu": (-4, 4, -2, 2, True, True), "elu": (-4, 4, 0.25, 3, True, False),
}
SCALAR = {"add_scalar": True, "subtract_scalar_r": True, "subtract_scalar_l": True, "multiply_scalar": True,
          "divide_scalar_r": False, "divide_scalar_l": False, "pow_scalar_r": False, "pow_scalar_l": False}
BINARY = {"add": True, "subtract": True, "multiply": True, "divide": False, "pow": False}
EXACT_UNARY = ("negate", "abs")


def rdims(rng, maxdepth=3, maxd=4):
    depth = rng.choice([0, 1, 1, 2, 2, 2, 3, 3, 4][:3 + 2 * maxdepth])
    depth = min(depth, maxdepth)
    return [rng.choice([1, 2, 2, 3, 3, 4][:maxd + 2]) for _ in range(depth)]


def ints(rng, n, lo=-4, hi=4, nonzero=False):
    out = []
    for _ in range(n):
        v = rng.randint(lo, hi)
        while nonzero and v == 0:
            v = rng.randint(lo, hi)
        out.append(v)
    return out


def dyadics(rng, n, lo=-4, hi=4, nonzero=False):
    out = []
    for _ in range(n):
        v = rng.randint(lo * 4, hi * 4) / 4.0
        while nonzero and v == 0:
            v = rng.randint(lo * 4, hi * 4) / 4.0
        out.append(v)
    return out


def floats(rng, n, lo, hi, away=False):
    out = []
    for _ in range(n):
        v = f32(rng.uniform(lo, hi))
        while away and abs(v) < 0.1:
            v = f32(rng.uniform(lo, hi))
        out.append(v)
    return out


def rtensor(rng, dims, batch, kind, lo=-4, hi=4, away=False):
    n = prod(dims) * batch
    if kind == "int":
        return TT(dims, batch, ints(rng, n, int(math.ceil(lo)), int(math.floor(hi)), away))
    if kind == "dyadic":
        return TT(dims, batch, dyadics(rng, n, int(math.ceil(lo)), int(math.floor(hi)), away))
    return TT(dims, batch, floats(rng, n, lo, hi, away))


def batches(rng, k):
    """batch sizes for k operands: all patterns of {1, B}"""
    B = rng.choice([2, 2, 3])
    r = rng.random()
    if r < 0.25:
        return [1] * k, 1
    return [rng.choice([1, B, B]) for _ in range(k)], B


class Gen(object):
    def __init__(self, rng):
        self.rng = rng
        self.lines = []
        self.meta = {}
        self.mode = None      # None | "otherdev" | "badgx": rewrite the next emitted line
        self.tags = []        # coverage tags attached to the emitted lines
        self.made = 0

    @staticmethod
    def retok_batch(tok, nb):
        """the tensor token with another batch size (same dims; values repeated / cut)"""
        head, sh, vs = tok.split(":")
        dims, b = sh.split("/")
        vals = vs.split(",") if vs else []
        vol = len(vals) // max(int(b), 1)
        base = vals[:vol] if vol else []
        nv = (vals + base * nb)[:vol * nb]
        return "%s:%s/%d:%s" % (head, dims, nb, ",".join(nv))

    def emit(self, rest, cls, prop_kind, **extra):
        """one base line → a naive and an eigen line (twins)"""
        tags = list(self.tags)
        if self.mode == "otherdev":
            toks = rest.split(" ")
            idx = [i for i, t in enumerate(toks) if t.startswith("T:")]
            if not idx:
                return None
            k = self.rng.choice(idx)
            toks[k] = "O:" + toks[k][2:]
            rest, cls, prop_kind, extra = " ".join(toks), "exact", "otherdev", {}
            tags.append("otherdev")
        elif self.mode == "badgx":
            toks = rest.split(" ")
            if not toks[0].endswith("_bw"):
                return None
            idx = [i for i, t in enumerate(toks) if t.startswith("T:")]
            if len(idx) == 4:
                acc, opnd = idx[3], idx[0]
            elif len(idx) == 6:
                j = self.rng.choice([0, 1])
                acc, opnd = idx[4 + j], idx[j]
            else:
                return None
            ob = int(toks[opnd].split(":")[1].split("/")[1])
            nb = self.rng.choice([b for b in (1, 2, 3, 4) if b != ob])
            toks[acc] = self.retok_batch(toks[acc], nb)
            rest, cls, prop_kind, extra = " ".join(toks), "exact", "badgx", {}
            tags.append("badgx")
        pair = []
        for dev in ("naive", "eigen"):
            line = dev + " " + rest
            if line in self.meta:
                return None
            pair.append(line)
        for line, other in ((pair[0], pair[1]), (pair[1], pair[0])):
            m = dict(extra)
            m.update({"cls": cls, "kind": prop_kind, "twin": other, "kernel": rest.split(" ", 1)[0], "tags": tags})
            self.meta[line] = m
            self.lines.append(line)
        self.made += 1
        return None if self.mode else pair

    # ------------------------------------------------------------ elementwise
    def unary(self):
        rng = self.rng
        name = rng.choice(sorted(UNARY))
        has_bw, lo, hi, away = UNARY[name]
        dims, batch = rdims(rng, 3), rng.choice([1, 1, 2, 3])
        exact = name in EXACT_UNARY
        kind = rng.choice(["int", "dyadic", "float"]) if exact else "float"
        if name in ("tanh", "sigmoid", "softplus", "sin", "cos", "exp") and rng.random() < 0.3:
            kind = "int"
        x = rtensor(rng, dims, batch, kind, lo, hi)
        mode = rng.choice(["fw", "bw", "grad"]) if has_bw else "fw"
        cls = "exact" if exact else "tol"
        if mode == "fw":
            self.emit("%s_fw %s" % (name, x.tok()), cls, "fw")
        elif mode == "bw":
            r = rng.random()
            ys = TT(dims, batch, [0] * len(x.vals))
            y = rtensor(rng, dims, batch, kind if exact else "float", 0.25 if name in ("sqrt",) else -2, 2)
            gy = rtensor(rng, dims, batch, "int" if exact else "float", -3, 3)
            gx = rtensor(rng, dims, batch, "int", -2, 2)
            if r < 0.08:   # a mismatched shape: must be rejected
                gy = rtensor(rng, dims + [2], batch, "int", -3, 3)
            elif r < 0.12:
                gx = rtensor(rng, dims, batch + 1, "int", -2, 2)
            self.emit("%s_bw %s %s %s %s" % (name, x.tok(), y.tok(), gy.tok(), gx.tok()), cls, "bw")
        else:
            xx = rtensor(rng, dims, batch, kind, lo, hi, away=True)
            gy = rtensor(rng, dims, batch, "int" if exact else "float", -3, 3)
            self.emit("%s_grad %s %s" % (name, xx.tok(), gy.tok()), cls, "grad")

    def const(self):
        rng = self.rng
        name = rng.choice(sorted(CONST))
        xlo, xhi, klo, khi, away, exact_ok = CONST[name]
        dims, batch = rdims(rng, 3), rng.choice([1, 1, 2, 3])
        kind = rng.choice(["int", "dyadic", "float"]) if exact_ok else "float"
        exact = exact_ok and kind != "float"
        if exact:
            k = rng.choice([-2, -1, 0, 1, 2, 3, 0.5, -0.5, 0.25, 1.5]) if kind == "dyadic" else rng.randint(int(klo), int(khi))
        else:
            k = f32(rng.uniform(klo, khi))
            if name in ("pow_const_r",) and rng.random() < 0.4:
                k = float(rng.choice([-2, -1, 0, 1, 2, 3]))
        x = rtensor(rng, dims, batch, kind, xlo, xhi, away)
        cls = "exact" if exact else "tol"
        mode = rng.choice(["fw", "bw", "grad"])
        if mode == "fw":
            self.emit("%s_fw %s K:%s" % (name, x.tok(), vtok(k)), cls, "fw")
        elif mode == "bw":
            y = rtensor(rng, dims, batch, kind if exact else "float", -2, 2)
            gy = rtensor(rng, dims, batch, "int" if exact else "float", -3, 3)
            gx = rtensor(rng, dims, batch, "int", -2, 2)
            if rng.random() < 0.08:
                y = rtensor(rng, dims, batch + 1, "int", -2, 2)
            self.emit("%s_bw %s %s %s %s K:%s" % (name, x.tok(), y.tok(), gy.tok(), gx.tok(), vtok(k)), cls, "bw")
        else:
            gy = rtensor(rng, dims, batch, "int" if exact else "float", -3, 3)
            self.emit("%s_grad %s %s K:%s" % (name, x.tok(), gy.tok(), vtok(k)), cls, "grad")

    def pown(self):
        rng = self.rng
        dims, batch = rdims(rng, 2), rng.choice([1, 1, 2])
        k = rng.choice([0, 1, 2, 3, 4, 5, 7, -1, -2, -3, 2, 3])
        r = rng.random()
        if r < 0.06:
            k = rng.choice([-2 ** 31, 2 ** 31 - 1, -2 ** 31 + 1, 31, -32, 64])
        mode = rng.choice(["fw", "fw", "bw", "grad"])
        if mode == "fw":
            if abs(k) > 100:
                x = TT(dims, batch, [rng.choice([1, -1, 0, 1]) for _ in range(prod(dims) * batch)])
                if k < 0:
                    x = TT(dims, batch, [rng.choice([1, -1]) for _ in range(prod(dims) * batch)])
                self.emit("pown_fw %s %d" % (x.tok(), k), "exact", "fw")
            elif k >= 0 and abs(k) <= 7:
                x = rtensor(rng, dims, batch, "int", -3, 3)
                self.emit("pown_fw %s %d" % (x.tok(), k), "exact", "fw")
            else:
                x = rtensor(rng, dims, batch, "float", 0.5, 2, True)
                if rng.random() < 0.5:
                    x = TT(dims, batch, [-v for v in x.vals])
                self.emit("pown_fw %s %d" % (x.tok(), k), "tol", "fw")
        elif mode == "bw":
            if abs(k) > 100:
                k = rng.choice([2, 3, -2])
            x = rtensor(rng, dims, batch, "float", 0.5, 2, True)
            y = rtensor(rng, dims, batch, "float", -2, 2)
            gy = rtensor(rng, dims, batch, "float", -3, 3)
            gx = rtensor(rng, dims, batch, "int", -2, 2)
            self.emit("pown_bw %s %s %s %s %d" % (x.tok(), y.tok(), gy.tok(), gx.tok(), k), "tol", "bw")
        else:
            if abs(k) > 100:
                k = rng.choice([2, 3, -2])
            # integer points, zero included: x = 0 is inside the smooth domain for k >= 0
            if rng.random() < 0.5:
                x = rtensor(rng, dims, batch, "int", -3, 3, away=(k < 0))
            else:
                x = rtensor(rng, dims, batch, "float", 0.5, 2, True)
            gy = rtensor(rng, dims, batch, "int", -3, 3, True)
            self.emit("pown_grad %s %s %d" % (x.tok(), gy.tok(), k), "tol", "grad", pown_k=k, pown_x=x.vals)

    # --------------------------------------------------- scalar and binary
    def scalar(self):
        rng = self.rng
        name = rng.choice(sorted(SCALAR))
        exact_ok = SCALAR[name]
        dims = rdims(rng, 3)
        (bx, bk), B = batches(rng, 2)
        kind = rng.choice(["int", "dyadic", "float"]) if exact_ok else "float"
        if name.startswith("pow"):
            x = rtensor(rng, dims, bx, "float", 0.25, 3)
            k = rtensor(rng, [], bk, "float", 0.25, 3)
        elif name.startswith("divide"):
            x = rtensor(rng, dims, bx, "float", 0.25, 4)
            k = rtensor(rng, [], bk, "float", 0.25, 4)
        else:
            x = rtensor(rng, dims, bx, kind)
            k = rtensor(rng, [], bk, kind)
        r = rng.random()
        if r < 0.05:
            k = rtensor(rng, [2], bk, "int")           # not a scalar: rejected
        elif r < 0.1:
            k = rtensor(rng, [], B + 1, "int")         # incompatible batch
        cls = "exact" if exact_ok and kind != "float" else "tol"
        pair = self.emit("%s_fw %s %s" % (name, x.tok(), k.tok()), cls, "fw")
        if pair and r >= 0.1 and max(bx, bk) > 1 and rng.random() < 0.5:
            self.samples(pair, "%s_fw" % name, [x, k], [], "fw", max(bx, bk), cls)

    def binary(self):
        rng = self.rng
        name = rng.choice(sorted(BINARY))
        exact_ok = BINARY[name]
        dims = rdims(rng, 3)
        (ba, bb), B = batches(rng, 2)
        kind = rng.choice(["int", "int", "dyadic", "float"]) if exact_ok else "float"
        if name == "pow":
            a = rtensor(rng, dims, ba, "float", 0.25, 3)
            b = rtensor(rng, dims, bb, "float", -2, 3)
        elif name == "divide":
            a = rtensor(rng, dims, ba, "float", -4, 4)
            b = rtensor(rng, dims, bb, "float", 0.25, 4)
            if rng.random() < 0.5:
                b = TT(b.dims, b.batch, [-v for v in b.vals])
        else:
            a = rtensor(rng, dims, ba, kind)
            b = rtensor(rng, dims, bb, kind)
        cls = "exact" if exact_ok and kind != "float" else "tol"
        By = max(ba, bb)
        r = rng.random()
        bad = False
        if r < 0.05:
            b = rtensor(rng, dims + [2], bb, "int")
            bad = True
        elif r < 0.1:
            b = rtensor(rng, dims, By + 1, "int")
            bad = True
        mode = rng.choice(["fw", "bw", "grad"])
        if mode == "fw":
            pair = self.emit("%s_fw %s %s" % (name, a.tok(), b.tok()), cls, "fw")
            if pair and not bad and By > 1 and rng.random() < 0.6:
                self.samples(pair, "%s_fw" % name, [a, b], [], "fw", By, cls)
        elif mode == "bw":
            ykind = kind if cls == "exact" else "float"
            y = rtensor(rng, dims, By, ykind, -2, 2)
            gy = rtensor(rng, dims, By, "int" if cls == "exact" else "float", -3, 3)
            ga = rtensor(rng, dims, ba, "int", -2, 2)
            gb = rtensor(rng, dims, bb if not bad else b.batch, "int", -2, 2)
            if bad:
                gb = TT(b.dims, b.batch, [0] * len(b.vals))
            if rng.random() < 0.06:
                gy = rtensor(rng, dims, By + 1, "int", -3, 3)
            zero_init = rng.random() < 0.5
            if zero_init:
                ga, gb = ga.zeros(), gb.zeros()
            pair = self.emit("%s_bw %s %s %s %s %s %s" % (name, a.tok(), b.tok(), y.tok(), gy.tok(), ga.tok(), gb.tok()), cls, "bw")
            if pair and not bad and zero_init and By > 1 and gy.batch == By and cls == "exact":
                self.samples(pair, "%s_bw" % name, [a, b, y, gy, ga, gb], [], "bw", By, cls, grads=[(4, ba), (5, bb)])
        else:
            gy = rtensor(rng, dims, By, "int" if cls == "exact" else "float", -3, 3)
            if name in ("add", "subtract", "multiply") and kind == "float":
                cls = "tol"
            self.emit("%s_grad %s %s %s" % (name, a.tok(), b.tok(), gy.tok()), cls if cls == "exact" else "tol", "grad")

    # ------------------------------------------------------------ loop kernels
    def matmul(self):
        rng = self.rng
        I, J, K = rng.choice([1, 2, 3, 4]), rng.choice([1, 2, 3, 4, 9]), rng.choice([1, 2, 3, 4])
        if rng.random() < 0.08:
            I, K = rng.choice([8, 9, 10]), rng.choice([1, 2, 9])
        (ba, bb), B = batches(rng, 2)
        a = rtensor(rng, trim([I, J]), ba, "int", -3, 3)
        b = rtensor(rng, trim([J, K]), bb, "int", -3, 3)
        r = rng.random()
        bad = False
        if r < 0.06:
            b = rtensor(rng, trim([J + 1, K]), bb, "int", -3, 3)
            bad = True
        elif r < 0.1:
            a = rtensor(rng, [I, J, 2], ba, "int", -3, 3)
            bad = True
        By = max(ba, bb)
        if rng.random() < 0.55:
            sp = None if bad else spec_matmul(a, b)
            pair = self.emit("matmul_fw %s %s" % (a.tok(), b.tok()), "exact", "fw", spec=sp)
            if pair and not bad and By > 1 and rng.random() < 0.7:
                self.samples(pair, "matmul_fw", [a, b], [], "fw", By, "exact")
        else:
            yd = trim([I, K])
            y = rtensor(rng, yd, By, "int", -2, 2)
            gy = rtensor(rng, yd, By, "int", -3, 3)
            zero_init = rng.random() < 0.5
            ga = rtensor(rng, a.dims, a.batch, "int", -2, 2)
            gb = rtensor(rng, b.dims, b.batch, "int", -2, 2)
            if zero_init:
                ga, gb = ga.zeros(), gb.zeros()
            if rng.random() < 0.06:
                gy = rtensor(rng, yd + ([2] if len(yd) < 3 else []), By, "int", -3, 3)
                bad = True
            pair = self.emit("matmul_bw %s %s %s %s %s %s" % (a.tok(), b.tok(), y.tok(), gy.tok(), ga.tok(), gb.tok()), "exact", "bw")
            if pair and not bad and zero_init and By > 1:
                self.samples(pair, "matmul_bw", [a, b, y, gy, ga, gb], [], "bw", By, "exact", grads=[(4, ba), (5, bb)])

    def matmul_batch_cycle(self, i):
        """Deterministic cycle over the batch patterns (B,1), (B,B), (1,B) x non-square operands (I, J, K pairwise different) of
        matmul forward and backward with their per-sample companions: every pattern is met in every run."""
        rng = self.rng
        pats = [(2, 1), (3, 3), (1, 2), (3, 1), (2, 2), (1, 3)]
        dimsets = [(2, 3, 4), (1, 4, 2), (3, 1, 2), (2, 2, 3), (4, 3, 1), (3, 2, 1)]
        ba, bb = pats[i % len(pats)]
        I, J, K = dimsets[(i // len(pats)) % len(dimsets)]
        a = rtensor(rng, trim([I, J]), ba, "int", -3, 3)
        b = rtensor(rng, trim([J, K]), bb, "int", -3, 3)
        By = max(ba, bb)
        pair = self.emit("matmul_fw %s %s" % (a.tok(), b.tok()), "exact", "fw", spec=spec_matmul(a, b))
        if pair and By > 1:
            self.samples(pair, "matmul_fw", [a, b], [], "fw", By, "exact")
        yd = trim([I, K])
        y = rtensor(rng, yd, By, "int", -2, 2)
        gy = rtensor(rng, yd, By, "int", -3, 3)
        ga = rtensor(rng, a.dims, a.batch, "int", -2, 2).zeros()
        gb = rtensor(rng, b.dims, b.batch, "int", -2, 2).zeros()
        pair = self.emit("matmul_bw %s %s %s %s %s %s" % (a.tok(), b.tok(), y.tok(), gy.tok(), ga.tok(), gb.tok()), "exact", "bw")
        if pair and By > 1:
            self.samples(pair, "matmul_bw", [a, b, y, gy, ga, gb], [], "bw", By, "exact", grads=[(4, ba), (5, bb)])

    def conv2d(self, boundary=False, batched=False):
        rng = self.rng
        H, Wd, C = rng.choice([1, 2, 3, 4, 5]), rng.choice([1, 2, 3, 4, 5]), rng.choice([1, 1, 2, 3])
        KH, KW, OC = rng.choice([1, 2, 3]), rng.choice([1, 2, 3]), rng.choice([1, 1, 2, 3])
        if batched:
            # minibatch-law cases: a batched filter with several output channels, non-square filters
            OC, C = rng.choice([2, 3]), rng.choice([1, 2])
        p0, p1 = rng.choice([0, 0, 1, 2]), rng.choice([0, 0, 1, 2])
        s0, s1 = rng.choice([1, 1, 2, 3]), rng.choice([1, 1, 2, 3])
        d0, d1 = rng.choice([1, 1, 2]), rng.choice([1, 1, 2, 3])
        if boundary:
            H, Wd, C, KH, KW, OC = rng.choice([1, 2, 3]), rng.choice([1, 2]), 1, rng.choice([1, 2]), 1, 1
            big = rng.choice([2 ** 31 - 1, 2 ** 31, 2 ** 31 + 1, 2 ** 32 - 2, 2 ** 32 - 1, 2 ** 30])
            which = rng.choice(["p", "s", "d", "ps"])
            if which == "p":
                p0 = big
            elif which == "s":
                s0 = big
            elif which == "d":
                d0 = big
            else:
                p0 = big
                s0 = rng.choice([big, 2 ** 32 - 1, 2 ** 31])
        (bx, bw), B = batches(rng, 2)
        if batched:
            B = rng.choice([2, 3])
            bx, bw = rng.choice([(1, B), (B, B), (B, 1)])
        x = rtensor(rng, trim([H, Wd, C]), bx, "int", -3, 3)
        w = rtensor(rng, trim([KH, KW, C, OC]), bw, "int", -2, 2)
        r = rng.random()
        bad = False
        if r < 0.05:
            w = rtensor(rng, trim([KH, KW, C + 1, OC]), bw, "int", -2, 2)
            bad = True
        elif r < 0.09:
            s0 = 0
            bad = True
        args = "%d %d %d %d %d %d" % (p0, p1, s0, s1, d0, d1)
        sp = None if bad else spec_conv2d(x, w, p0, p1, s0, s1, d0, d1)
        if sp == "big":
            return
        By = max(bx, bw)
        if rng.random() < 0.55 or sp is None or (boundary and rng.random() < 0.5):
            # (the other half of the boundary cases — padding / stride / dilation near 2^31 and 2^32 — goes to the backward kernel)
            pair = self.emit("conv2d_fw %s %s %s" % (x.tok(), w.tok(), args), "exact", "fw", spec=sp)
            if pair and sp is not None and By > 1 and (batched or rng.random() < 0.6) and not boundary:
                self.samples(pair, "conv2d_fw", [x, w], args, "fw", By, "exact")
        else:
            y = rtensor(rng, sp.dims, By, "int", -2, 2)
            gy = rtensor(rng, sp.dims, By, "int", -3, 3)
            zero_init = rng.random() < 0.5
            gx = rtensor(rng, x.dims, x.batch, "int", -2, 2)
            gw = rtensor(rng, w.dims, w.batch, "int", -2, 2)
            if zero_init:
                gx, gw = gx.zeros(), gw.zeros()
            pair = self.emit("conv2d_bw %s %s %s %s %s %s %s" % (x.tok(), w.tok(), y.tok(), gy.tok(), gx.tok(), gw.tok(), args), "exact", "bw")
            if pair and zero_init and By > 1:
                self.samples(pair, "conv2d_bw", [x, w, y, gy, gx, gw], args, "bw", By, "exact", grads=[(4, bx), (5, bw)])

    def conv_wrap(self, i):
        """Deterministic cycle: padding == stride near 2^32 (2^32-1, 2^32-2, 2^31) on one axis of a tiny image with a 1x1
        filter — window positions whose 32-bit value would wrap back inside the image — forward and backward."""
        rng = self.rng
        combos = [(H, Wd, big) for H in (2, 3) for Wd in (1, 2, 3) for big in (2 ** 32 - 1, 2 ** 32 - 2, 2 ** 31)]
        H, Wd, big = combos[i % len(combos)]
        if (i // len(combos)) % 2 == 0:
            p0, s0, p1, s1 = big, big, 0, 1
        else:
            p0, s0, p1, s1 = 0, 1, big, big
        x = rtensor(rng, trim([H, Wd]), 1, "int", -3, 3)
        w = rtensor(rng, [], 1, "int", 1, 2)
        args = "%d %d %d %d 1 1" % (p0, p1, s0, s1)
        sp = spec_conv2d(x, w, p0, p1, s0, s1, 1, 1)
        if sp is None or sp == "big":
            return
        self.emit("conv2d_fw %s %s %s" % (x.tok(), w.tok(), args), "exact", "fw", spec=sp)
        y = rtensor(rng, sp.dims, 1, "int", -2, 2)
        gy = rtensor(rng, sp.dims, 1, "int", 1, 3)
        gx = rtensor(rng, x.dims, 1, "int", -2, 2).zeros()
        gw = rtensor(rng, w.dims, 1, "int", -2, 2).zeros()
        self.emit("conv2d_bw %s %s %s %s %s %s %s" % (x.tok(), w.tok(), y.tok(), gy.tok(), gx.tok(), gw.tok(), args), "exact", "bw")

    def pool(self, boundary=False):
        rng = self.rng
        H, Wd, C = rng.choice([1, 2, 3, 4, 5]), rng.choice([1, 2, 3, 4, 5]), rng.choice([1, 1, 2, 3])
        w0, w1 = rng.choice([1, 2, 2, 3]), rng.choice([1, 2, 2, 3])
        p0, p1 = rng.choice([0, 0, 1, 2, 3]), rng.choice([0, 0, 1, 2])
        s0, s1 = rng.choice([1, 1, 2, 3]), rng.choice([1, 1, 2, 3])
        if boundary:
            H, Wd, C = rng.choice([1, 2, 3]), rng.choice([1, 2]), 1
            big = rng.choice([2 ** 31 - 1, 2 ** 31, 2 ** 31 + 1, 2 ** 32 - 2, 2 ** 32 - 1])
            which = rng.choice(["p", "s", "ps"])
            if which in ("p", "ps"):
                p0 = big
            if which in ("s", "ps"):
                s0 = rng.choice([big, 2 ** 32 - 1])
        bx = rng.choice([1, 1, 2, 3])
        kind = rng.choice(["int", "int", "float"])
        x = rtensor(rng, trim([H, Wd, C]), bx, kind, -4, 4)
        r = rng.random()
        bad = False
        if r < 0.05:
            w0 = 0
            bad = True
        elif r < 0.08:
            x = rtensor(rng, [H, Wd, C, 2], bx, "int")
            bad = True
        args = "%d %d %d %d %d %d" % (w0, w1, p0, p1, s0, s1)
        sp = None if bad else spec_max_pool2d(x, w0, w1, p0, p1, s0, s1)
        if sp == "big":
            return
        if rng.random() < 0.5 or sp is None or (boundary and rng.random() < 0.5):
            pair = self.emit("max_pool2d_fw %s %s" % (x.tok(), args), "exact", "fw", spec=sp)
            if pair and sp is not None and bx > 1 and rng.random() < 0.6 and not boundary:
                self.samples(pair, "max_pool2d_fw", [x], args, "fw", bx, "exact")
        else:
            # y is the true forward value (ties possible on the integer domain: the first cell wins)
            y = TT(sp.dims, sp.batch, sp.vals)
            if rng.random() < 0.2:
                y = rtensor(rng, sp.dims, sp.batch, "int", -4, 4)
            gy = rtensor(rng, sp.dims, sp.batch, "int", -3, 3)
            zero_init = rng.random() < 0.5
            gx = rtensor(rng, x.dims, x.batch, "int", -2, 2)
            if zero_init:
                gx = gx.zeros()
            pair = self.emit("max_pool2d_bw %s %s %s %s %s" % (x.tok(), y.tok(), gy.tok(), gx.tok(), args), "exact", "bw")
            if pair and zero_init and bx > 1:
                self.samples(pair, "max_pool2d_bw", [x, y, gy, gx], args, "bw", bx, "exact", grads=[(3, bx)])

    def logsumexp(self, stable=False):
        rng = self.rng
        dims = rdims(rng, 3)
        batch = rng.choice([1, 1, 2])
        dim = rng.choice([0, 0, 1, 1, 2, 3, 7, 8, 9, len(dims)])
        if stable:
            n = prod(dims) * batch
            vals = [rng.choice([80, -80, 1e4, -1e4, 3e38, -3e38, 0, 1, 88, 89, 104, -104]) for _ in range(n)]
            self.emit("logsumexp_fw %s %d" % (TT(dims, batch, vals).tok(), dim), "tol", "fw", stable=True)
        else:
            x = rtensor(rng, dims, batch, rng.choice(["int", "float"]), -4, 4)
            self.emit("logsumexp_fw %s %d" % (x.tok(), dim), "tol", "fw")

    def stable_unary(self):
        rng = self.rng
        name = rng.choice(["softplus", "sigmoid"])
        n = rng.choice([1, 3, 4, 5, 8, 9])
        vals = [rng.choice([80, -80, 1e4, -1e4, 3e38, -3e38, 0, 17, -17, 88.5, -88.5, 89, -89, 104, -104, 1e-30, -1e-30])
                for _ in range(n)]
        self.emit("%s_fw %s" % (name, TT([n], 1, vals).tok()), "tol", "fw", stable=True)

    def inplace(self):
        rng = self.rng
        which = rng.choice(["inplace_multiply_const", "inplace_add", "inplace_subtract"])
        dims = rdims(rng, 3)
        kind = rng.choice(["int", "dyadic"])
        if which == "inplace_multiply_const":
            x = rtensor(rng, dims, rng.choice([1, 2, 3]), kind)
            k = rng.choice([-2, -1, 0, 1, 2, 3, 0.5, -0.25])
            self.emit("%s %s K:%s" % (which, x.tok(), vtok(k)), "exact", "fw")
            return
        (bx, by), B = batches(rng, 2)
        if rng.random() < 0.3:
            # a larger minibatch folded into a shared destination (what reaches every Parameter gradient): sizes on both
            # sides of 8 and 16, powers of two and not
            bx, by = rng.choice([7, 8, 9, 10, 12, 15, 16, 17, 24]), 1
            B = bx
            dims = rdims(rng, 2)
        x = rtensor(rng, dims, bx, kind)
        y = rtensor(rng, dims, by, kind)
        r = rng.random()
        if r < 0.06:
            y = rtensor(rng, dims + [2], by, "int")
        elif r < 0.12:
            y = rtensor(rng, dims, B + 1, "int")
        self.emit("%s %s %s" % (which, x.tok(), y.tok()), "exact", "fw")

    # ------------------------------------------------ large-magnitude finite inputs
    LARGE = [88.73, 100.0, 1e4, 3e38]

    def large_values(self, which, n):
        """n inputs: mostly large-magnitude values admissible for `which`, a few ordinary ones"""
        rng = self.rng
        L = self.LARGE
        both = L + [-v for v in L]
        pools = {"all": both, "pos": L, "exp": [-3e38, -1e4, -100.0, -88.73, 80.0, 88.0], "trig": [88.73, -88.73, 100.0, -100.0, 1e4, -1e4],
                 "tan": [88.73, -88.73, 100.0, -100.0], "powl": [88.73, -88.73, 100.0, -100.0]}
        pool = pools[which]
        out = []
        for _ in range(n):
            if rng.random() < 0.8:
                out.append(rng.choice(pool))
            elif which in ("pos",):
                out.append(f32(rng.uniform(0.5, 4)))
            else:
                out.append(f32(rng.uniform(-4, 4)) or 1.0)
        return out

    LARGE_UNARY = {"negate": "all", "abs": "all", "tanh": "all", "sigmoid": "all", "softplus": "all", "sqrt": "pos", "log": "pos",
                   "exp": "exp", "sin": "trig", "cos": "trig", "tan": "tan"}
    LARGE_CONST = {  # name: (x pool, k choices); the SCALAR kernels use the same table
        "add_const": ("all", [-4, -1.5, 0, 2, 3.25]), "subtract_const_r": ("all", [-4, -1.5, 0, 2, 3.25]),
        "subtract_const_l": ("all", [-4, -1.5, 0, 2, 3.25]), "multiply_const": ("all", [-1, -0.5, 0, 0.25, 1]),
        "divide_const_r": ("all", [-4, -1, 1, 2, 4]), "divide_const_l": ("all", [-4, -1.5, 1, 2, 3.25]),
        "pow_const_r": ("pos", [0.5, -1, 0.25, -0.5, 0, 1]), "pow_const_l": ("powl", [1.5, 2, 0.5]),
        "prelu": ("all", [-2, -0.5, 0, 0.25, 1, 2]), "elu": ("all", [0.25, 1, 2]),
    }
    LARGE_SCALAR = {"add_scalar": "add_const", "subtract_scalar_r": "subtract_const_r", "subtract_scalar_l": "subtract_const_l",
                    "multiply_scalar": "multiply_const", "divide_scalar_r": "divide_const_r", "divide_scalar_l": "divide_const_l",
                    "pow_scalar_r": "pow_const_r", "pow_scalar_l": "pow_const_l"}
    LARGE_BINARY = ["add", "subtract", "multiply", "divide"]

    def large(self, i):
        """large-magnitude finite inputs for the i-th elementwise kernel (cyclic), forward and bw∘fw.
        The inputs are chosen so that the exact forward value is representable; the upstream gradient of the
        `_grad` lines has |gy| <= 1 so that the intermediate products of the backward formulas (k*gy*y, gy*y)
        stay below FLT_MAX — an overflowing intermediate is float32 arithmetic, not a wrong formula."""
        rng = self.rng
        names = ([("u", n) for n in sorted(self.LARGE_UNARY)] + [("c", n) for n in sorted(self.LARGE_CONST)] +
                 [("s", n) for n in sorted(self.LARGE_SCALAR)] + [("b", n) for n in self.LARGE_BINARY])
        fam, name = names[i % len(names)]
        n = rng.choice([1, 3, 4, 5, 8, 9])
        self.tags = ["large"]
        try:
            if fam == "u":
                x = TT([n], 1, self.large_values(self.LARGE_UNARY[name], n))
                if UNARY[name][0] and rng.random() < 0.5:
                    gy = rtensor(rng, [n], 1, "dyadic", -1, 1, True)
                    self.emit("%s_grad %s %s" % (name, x.tok(), gy.tok()), "tol", "grad", large=True)
                else:
                    self.emit("%s_fw %s" % (name, x.tok()), "exact" if name in EXACT_UNARY else "tol", "fw", large=True)
            elif fam == "c":
                pool, ks = self.LARGE_CONST[name]
                x = TT([n], 1, self.large_values(pool, n))
                k = rng.choice(ks)
                if rng.random() < 0.5:
                    gy = rtensor(rng, [n], 1, "dyadic", -1, 1, True)
                    self.emit("%s_grad %s %s K:%s" % (name, x.tok(), gy.tok(), vtok(k)), "tol", "grad", large=True)
                else:
                    self.emit("%s_fw %s K:%s" % (name, x.tok(), vtok(k)), "tol", "fw", large=True)
            elif fam == "s":
                pool, ks = self.LARGE_CONST[self.LARGE_SCALAR[name]]
                bk = rng.choice([1, 1, 2])
                x = TT([n], rng.choice([1, bk]), [])
                x = TT([n], x.batch, self.large_values(pool, n * x.batch))
                k = TT([], bk, [rng.choice(ks) for _ in range(bk)])
                self.emit("%s_fw %s %s" % (name, x.tok(), k.tok()), "tol", "fw", large=True)
            else:
                ba, bb = rng.choice([(1, 1), (2, 1), (1, 2), (2, 2)])
                a = TT([n], ba, self.large_values("all", n * ba))
                lo, hi = (1, 4) if name == "divide" else (-1, 1) if name == "multiply" else (-4, 4)
                b = rtensor(rng, [n], bb, "dyadic", lo, hi, name == "divide")
                if rng.random() < 0.5:
                    a, b = (b, a) if name != "divide" else (a, b)
                if ba == 1 and bb == 1 and rng.random() < 0.7:
                    # |gy| <= 1 and no batch folding: every intermediate product of the backward formula stays finite
                    gy = rtensor(rng, [n], 1, "dyadic", -1, 1, True)
                    self.emit("%s_grad %s %s %s" % (name, a.tok(), b.tok(), gy.tok()), "tol", "grad", large=True)
                else:
                    self.emit("%s_fw %s %s" % (name, a.tok(), b.tok()), "tol", "fw", large=True)
        finally:
            self.tags = []

    # ------------------------------------------------ matmul beyond one 8x8 tile of the Naive loop
    BIGDIMS = [1, 2, 7, 8, 9, 15, 16, 17, 20, 33]

    def bigmatmul(self, i, budget):
        rng = self.rng
        for _ in range(50):
            I, J, K = rng.choice(self.BIGDIMS), rng.choice(self.BIGDIMS), rng.choice(self.BIGDIMS)
            if i % 3 == 0:
                I, K = rng.choice([1, 2, 7, 8]), rng.choice([9, 15, 16, 17, 20, 33])    # wide result: d3 > 8 >= d1
            if max(I, J, K) <= 8:
                continue
            ba, bb = [(1, 1), (2, 1), (1, 2), (2, 2), (3, 3), (3, 1)][i % 6]
            B = max(ba, bb)
            # cost of the model: (cells) x (iterations)
            if (B * I * K) * (B * I * J * K) <= budget and (B * max(I * J, J * K)) * (B * I * J * K) <= budget:
                break
        else:
            return
        a = rtensor(rng, trim([I, J]), ba, "int", -2, 2)
        b = rtensor(rng, trim([J, K]), bb, "int", -2, 2)
        self.tags = ["bigmat"]
        try:
            if i % 2 == 0:
                self.emit("matmul_fw %s %s" % (a.tok(), b.tok()), "exact", "fw", spec=spec_matmul(a, b))
            else:
                yd = trim([I, K])
                y = rtensor(rng, yd, B, "int", -1, 1)
                gy = rtensor(rng, yd, B, "int", -2, 2)
                ga = rtensor(rng, a.dims, a.batch, "int", -2, 2)
                gb = rtensor(rng, b.dims, b.batch, "int", -2, 2)
                self.emit("matmul_bw %s %s %s %s %s %s" % (a.tok(), b.tok(), y.tok(), gy.tok(), ga.tok(), gb.tok()), "exact", "bw")
        finally:
            self.tags = []

    # ------------------------------------------------ windows entirely inside the padding
    def allpad(self, i):
        rng = self.rng
        H, Wd, C = rng.choice([1, 2, 3]), rng.choice([1, 2, 3]), rng.choice([1, 1, 2])
        s0, s1 = rng.choice([1, 1, 2, 3]), rng.choice([1, 1, 2, 3])
        axes = ["0", "1", "01"][i % 3]
        self.tags = ["allpad"]
        try:
            if i % 2 == 0:
                w0, w1 = rng.choice([1, 2, 3]), rng.choice([1, 2, 3])
                p0 = w0 + rng.choice([0, 1, 2]) if "0" in axes else rng.choice([0, 1])
                p1 = w1 + rng.choice([0, 1, 2]) if "1" in axes else rng.choice([0, 1])
                bx = rng.choice([1, 2])
                x = rtensor(rng, trim([H, Wd, C]), bx, rng.choice(["int", "float"]), -4, 4)
                args = "%d %d %d %d %d %d" % (w0, w1, p0, p1, s0, s1)
                sp = spec_max_pool2d(x, w0, w1, p0, p1, s0, s1)
                if sp in (None, "big"):
                    return
                if rng.random() < 0.7:
                    self.emit("max_pool2d_fw %s %s" % (x.tok(), args), "exact", "fw", spec=sp)
                else:
                    gy = rtensor(rng, sp.dims, sp.batch, "int", -3, 3)
                    gx = rtensor(rng, x.dims, x.batch, "int", -2, 2)
                    self.emit("max_pool2d_bw %s %s %s %s %s" % (x.tok(), TT(sp.dims, sp.batch, sp.vals).tok(), gy.tok(), gx.tok(), args), "exact", "bw")
            else:
                KH, KW, OC = rng.choice([1, 2, 3]), rng.choice([1, 2]), rng.choice([1, 2])
                d0, d1 = rng.choice([1, 2]), rng.choice([1, 2])
                p0 = (KH - 1) * d0 + 1 + rng.choice([0, 1]) if "0" in axes else rng.choice([0, 1])
                p1 = (KW - 1) * d1 + 1 + rng.choice([0, 1]) if "1" in axes else rng.choice([0, 1])
                bx, bw = rng.choice([(1, 1), (2, 1), (1, 2), (2, 2)])
                x = rtensor(rng, trim([H, Wd, C]), bx, "int", -3, 3)
                w = rtensor(rng, trim([KH, KW, C, OC]), bw, "int", -2, 2)
                args = "%d %d %d %d %d %d" % (p0, p1, s0, s1, d0, d1)
                sp = spec_conv2d(x, w, p0, p1, s0, s1, d0, d1)
                if sp in (None, "big"):
                    return
                if rng.random() < 0.7:
                    self.emit("conv2d_fw %s %s %s" % (x.tok(), w.tok(), args), "exact", "fw", spec=sp)
                else:
                    y = rtensor(rng, sp.dims, sp.batch, "int", -2, 2)
                    gy = rtensor(rng, sp.dims, sp.batch, "int", -3, 3)
                    gx = rtensor(rng, x.dims, x.batch, "int", -2, 2)
                    gw = rtensor(rng, w.dims, w.batch, "int", -2, 2)
                    self.emit("conv2d_bw %s %s %s %s %s %s %s" % (x.tok(), w.tok(), y.tok(), gy.tok(), gx.tok(), gw.tok(), args), "exact", "bw")
        finally:
            self.tags = []

    # ------------------------------------------------ rewritten lines: foreign operand / wrong accumulator batch
    def rewritten(self, mode, i):
        """a line of the i-th generator (cyclic) with one operand on the other device (`otherdev`) or, for a
        backward kernel, with an accumulator of the same dims but another batch (`badgx`); both must be `err`"""
        gens = [self.unary, self.const, self.pown, self.scalar, self.binary, self.matmul, self.conv2d, self.pool,
                self.inplace, self.logsumexp]
        if mode == "badgx":
            gens = [self.unary, self.const, self.pown, self.binary, self.matmul, self.conv2d, self.pool]
        f = gens[i % len(gens)]
        self.mode = mode
        before = self.made
        try:
            for _ in range(40):
                f()
                if self.made > before:
                    break
        finally:
            self.mode = None

    def malformed(self):
        rng = self.rng
        cands = ["naive", "cuda add_fw T:1/1:1 T:1/1:1", "naive add_fw T:1/1:1", "naive add_fw T:1/1:1,2 T:1/1:1",
                 "naive nothing_fw T:1/1:1", "eigen tanh_fw T:2/1:1", "naive tanh_fw T:2:1,2", "naive tanh_fw T:2/1:1,zz",
                 "naive pown_fw T:1/1:2 2147483648", "naive pown_fw T:1/1:2 -2147483649", "eigen conv2d_fw T:1/1:1 T:1/1:1 0 0 1 1 1",
                 "naive conv2d_fw T:1/1:1 T:1/1:1 0 0 1 1 1 4294967296", "naive max_pool2d_fw T:1/1:1 1 1 0 0 1 -1",
                 "naive add_fw T:0/1: T:0/1:", "naive add_fw T:2/0:1,2 T:2/0:1,2", "naive add_fw T:1,1,1,1,1,1,1,1,2/1:1,2 T:2/1:1,2",
                 "naive logsumexp_fw T:2/1:1,2 4294967296", "naive inplace_add T:1/1:1", "eigen tanh_grad T:1/1:1",
                 "naive negate_bw T:1/1:1 T:1/1:1 T:1/1:1 T:1/1:1", "naive add_fw T:1/1:x3ff0 T:1/1:1",
                 "naive add_const_fw T:1/1:1 K:", "naive add_const_fw T:1/1:1 K:1 K:2"]
        line = rng.choice(cands)
        if line not in self.meta:
            self.meta[line] = {"cls": "exact", "kind": "malformed", "twin": None, "kernel": "malformed"}
            self.lines.append(line)

    # ------------------------------------------------------------ metamorphic
    def samples(self, pair, kern, tensors, args, mode, B, cls, grads=None):
        """per-sample lines of a batched line; `grads` = [(operand index, its batch)] for bw kernels"""
        for dev_line in pair:
            dev = dev_line.split(" ", 1)[0]
            subs = []
            for b in range(B):
                toks = " ".join(t.sample(b).tok() for t in tensors)
                rest = "%s %s%s" % (kern, toks, (" " + args) if args else "")
                line = dev + " " + rest
                if line not in self.meta:
                    self.meta[line] = {"cls": cls, "kind": "sample", "twin": None, "kernel": kern}
                    self.lines.append(line)
                subs.append(line)
            self.meta[dev_line]["samples"] = subs
            self.meta[dev_line]["sample_mode"] = mode
            self.meta[dev_line]["sample_grads"] = grads
            self.meta[dev_line]["sample_B"] = B


def streams(rng, tier):
    """Returns (lines, meta)."""
    g = Gen(rng)
    corpus = os.path.join(build.VERIF, "corpus", "karith.ops")
    if os.path.exists(corpus):
        for l in open(corpus):
            l = l.strip()
            if l and not l.startswith("#") and l not in g.meta:
                cls = "exact"
                kern = (l.split(" ") + ["", ""])[1]
                if kern.endswith("_grad") or kern.split("_")[0] in ("sqrt", "exp", "log", "tanh", "sigmoid", "softplus", "sin", "cos", "tan", "divide", "pow", "elu", "logsumexp") or kern.startswith("pown"):
                    cls = "tol"
                kind = "grad" if kern.endswith("_grad") else "bw" if kern.endswith("_bw") else "fw"
                g.meta[l] = {"cls": cls, "kind": kind, "twin": None, "kernel": kern, "corpus": True}
                if kern == "pown_grad":
                    w = l.split(" ")
                    try:
                        g.meta[l]["pown_k"] = int(w[-1])
                        g.meta[l]["pown_x"] = [decode_val(t) for t in w[2].split(":")[2].split(",")]
                    except Exception:
                        pass
                g.lines.append(l)
        for l in list(g.meta):
            other = ("eigen " + l[6:]) if l.startswith("naive ") else ("naive " + l[6:]) if l.startswith("eigen ") else None
            if other in g.meta:
                g.meta[l]["twin"] = other
    n = 600 if tier == "quick" else 8000
    table = [(g.unary, 5), (g.const, 5), (g.pown, 2), (g.scalar, 3), (g.binary, 5), (g.matmul, 3), (g.conv2d, 3),
             (g.pool, 3), (g.logsumexp, 1), (g.inplace, 2)]
    fns = [f for f, wgt in table for _ in range(wgt)]
    for i in range(n):
        rng.choice(fns)()
    for i in range(20 if tier == "quick" else 300):
        g.stable_unary()
        g.logsumexp(stable=True)
    for i in range(12 if tier == "quick" else 200):
        g.conv2d(boundary=True)
        g.pool(boundary=True)
    for i in range(12 if tier == "quick" else 36):
        g.conv_wrap(i if tier != "quick" else rng.randrange(36))
    for i in range(12 if tier == "quick" else 36):
        g.matmul_batch_cycle(i if tier != "quick" else 6 * rng.randrange(6) + i % 6)     # all six batch patterns in every run
    for i in range(24 if tier == "quick" else 300):
        g.conv2d(batched=True)
    quick = tier == "quick"
    for i in range(70 if quick else 1800):
        g.large(i if not quick else rng.randrange(10 ** 6))
    for i in range(12 if quick else 90):
        # sequential i: the wide-result / fw-bw / batch-pattern combinations cycle deterministically, also in quick
        g.bigmatmul(i, 3 * 10 ** 6 if quick else 4 * 10 ** 7)
    for i in range(16 if quick else 400):
        g.allpad(i if not quick else rng.randrange(10 ** 6))
    for i in range(40 if quick else 700):
        g.rewritten("badgx", i if not quick else rng.randrange(10 ** 6))
    for i in range(40 if quick else 700):
        g.rewritten("otherdev", i if not quick else rng.randrange(10 ** 6))
    for i in range(12 if tier == "quick" else 60):
        g.malformed()
    return g.lines, g.meta


# ----------------------------------------------------------------------------
# decision
# ----------------------------------------------------------------------------
_cache = {}


def correspond_once(chk):
    key = (chk.seed, chk.tier, os.environ.get("VERIF_REPO", "/repo"))
    if key in _cache:
        return _cache[key]
    lines, meta = streams(chk.rng, chk.tier)
    got = {}

    def post(ls, impl, model):
        m2 = list(model)
        for i, l in enumerate(ls):
            got[l] = (impl[i], model[i])
            if impl[i] != model[i] and same_out(impl[i], model[i], meta[l]["cls"]):
                m2[i] = impl[i]
        return impl, m2

    def nontrivial(line, out):
        return out.startswith("ok")

    dis, judged, crashes = chk.correspond(FAMILY, HARNESS, [lines], stateful=False, post=post, nontrivial=nontrivial)
    _cache[key] = (lines, meta, got, dis, crashes)
    return _cache[key]


def replay_obj(lines, **kw):
    o = {"family": FAMILY, "harness": HARNESS, "lines": lines}
    o.update(kw)
    return o


def describe(out):
    """decoded values for the `what` text"""
    st, res = decode(out)
    if res is None:
        return out[:80]
    return " | ".join("%s %s" % (sh, ",".join("%.9g" % v if isinstance(v, float) else str(v) for v in vs[:12])) for sh, vs in res)


def pown_zero_case(line, meta, impl, model):
    """True iff this is exactly defect #17: pown gradient, k >= 0, the disagreement consists of NaN
    (or inf) at the elements where x == 0 and nothing else."""
    m = meta.get(line, {})
    if m.get("kernel") != "pown_grad" or "pown_k" not in m or m["pown_k"] < 0:
        return False
    xs = m["pown_x"]
    B = 1
    si, ri = decode(impl)
    sm, rm = decode(model)
    if si != "ok" or sm != "ok" or ri[0][0] != rm[0][0]:
        return False
    iv, mv = ri[0][1], rm[0][1]
    if len(iv) != len(xs) or len(mv) != len(xs):
        return False
    seen = False
    for x, a, b in zip(xs, iv, mv):
        if x == 0:
            if close(a, b, "tol"):
                continue
            if a != a or (isinstance(a, float) and math.isinf(a)):
                seen = True
                continue
            return False
        if not close(a, b, "tol"):
            return False
    return seen


def finite_out(out):
    st, res = decode(out)
    if res is None:
        return True
    return all(v != "C" and not (v != v) and not math.isinf(v) for sh, vs in res for v in vs)


def large_nonfinite(impl, model):
    """an element where the implementation is NaN/inf although the model's value is finite in float32"""
    si, ri = decode(impl)
    sm, rm = decode(model)
    if ri is None or rm is None or len(ri) != len(rm):
        return None
    for (sha, va), (shb, vb) in zip(ri, rm):
        for i, (a, b) in enumerate(zip(va, vb)):
            if a == "C" or b == "C":
                continue
            m = float(b) if isinstance(b, int) else f32(b)
            if (a != a or math.isinf(a)) and not (m != m or math.isinf(m)):
                return "element %d is %r, the model's value there is finite (%r)" % (i, a, m)
    return None


def eval_samples(line, m, got):
    """metamorphic batch law on the implementation outputs; returns a message or None"""
    impl = got[line][0]
    st, res = decode(impl)
    if st != "ok":
        return None
    subs = [decode(got[s][0]) for s in m["samples"]]
    if any(s[0] != "ok" for s in subs):
        return "the batched call succeeds but a per-sample call answers %s" % [s[0] for s in subs]
    B = m["sample_B"]
    cls = m["cls"]
    if m["sample_mode"] == "fw":
        sh, vals = res[0]
        if len(vals) % B:
            return "result size %d is not a multiple of the batch %d" % (len(vals), B)
        vol = len(vals) // B
        for b in range(B):
            part = vals[b * vol:(b + 1) * vol]
            svals = subs[b][1][0][1]
            if len(svals) != vol or not all(same_pair(x, y, cls) for x, y in zip(part, svals)):
                return "sample %d of the batched result %s differs from the result on the samples alone %s" % (
                    b, part[:8], svals[:8])
        return None
    # backward, zero-initialised accumulators: batched operand -> slice b; shared operand -> sum over b
    for oi, (idx, ob) in enumerate(m["sample_grads"]):
        sh, vals = res[oi]
        if ob > 1:
            vol = len(vals) // B
            for b in range(B):
                part = vals[b * vol:(b + 1) * vol]
                svals = subs[b][1][oi][1]
                if len(svals) != vol or not all(same_pair(x, y, cls) for x, y in zip(part, svals)):
                    return "gradient %d: sample %d of the batched gradient differs from the per-sample gradient" % (oi, b)
        else:
            tot = [0.0] * len(vals)
            for b in range(B):
                svals = subs[b][1][oi][1]
                if len(svals) != len(vals):
                    return "gradient %d: per-sample gradient has another size" % oi
                tot = [t + v for t, v in zip(tot, svals)]
            if not all(same_pair(x, y, cls) for x, y in zip(vals, tot)):
                return "gradient %d of the batch-1 operand is %s, the sum of the per-sample gradients is %s" % (oi, vals[:8], tot[:8])
    return None


def same_pair(x, y, cls):
    if x == "C" or y == "C":
        return False
    if x != x or y != y:
        return x != x and y != y
    if x == y:
        return True
    if cls == "exact":
        return False
    return abs(x - y) <= 2 * TOL * max(1.0, abs(x))


def run_family(chk, prop):
    """Report the findings of property `prop` (C01, C02, C03, C08, C11, or ALL)."""
    props = PROPS if prop == "ALL" else [prop]
    mods = [m for p in props for m in MODS[p]]
    for attempt in range(3):
        notes = translators()
        chk.obligations(mods, drivers=DRIVERS)
        # Gen/*.lean is shared: a concurrent check of another working tree may have rewritten it between the
        # regeneration and the (locked) build; build again when the file is not the one this tree generates
        if open(elementwise.OUT).read() == elementwise.render(elementwise.collect()):
            break
        chk.notes.append("Gen/Elementwise.lean was rewritten concurrently during attempt %d; obligations rebuilt" % (attempt + 1))
    chk.notes += [n for n in notes if n not in chk.notes]
    lines, meta, got, dis, crashes = correspond_once(chk)
    if notes and any("self-test" in n for n in notes):
        chk.report("karith:translator-selftest", notes[0], {"notes": notes}, found_input=False)
    dis_lines = {d["line"]: d for d in dis}

    def what_line(line):
        impl, model = got[line]
        return "`%s`: implementation %s ; model %s" % (line if len(line) < 300 else line[:300] + "…", describe(impl), describe(model))

    for p in props:
        # ---- C11: crashes, sanitizer reports, canaries
        if p in ("C11", "C10"):   # C10: crash, wrong acceptance, a rejected call that already wrote
            for line, (impl, model) in got.items():
                if impl.startswith("crash"):
                    chk.report("karith:%s:%s" % (meta[line]["kernel"], impl.replace(" ", "-")),
                               "kernel call aborts under ASan/UBSan (%s): %s" % (impl, line[:300]), replay_obj([line], observed_impl=impl))
                elif impl.startswith("ok") and "C" in impl.split(" ", 2)[-1] and re.search(r"(^|[ ,])C($|[ ,])", impl):
                    chk.report("karith:%s:uninitialised-output" % meta[line]["kernel"],
                               "a forward kernel leaves elements of its raw result unwritten (canary survives): %s -> %s" % (line[:300], impl[:200]),
                               replay_obj([line], observed_impl=impl))
                if impl.startswith("err modified"):
                    chk.report("karith:%s:rejected-call-modified-accumulator:%s" % (meta[line]["kernel"], line.split(" ")[0]),
                               "a backward entry point throws although it has already changed its accumulator: %s" % line[:300],
                               replay_obj([line], observed_impl=impl))
                if meta[line]["kind"] in ("badgx", "otherdev") and not impl.startswith("err") and not impl.startswith("crash"):
                    chk.report("karith:%s:accepts-inadmissible:%s:%s" % (meta[line]["kernel"], meta[line]["kind"], line.split(" ")[0]),
                               "%s must be rejected with an Error, the implementation answers `%s`: %s" % (
                                   "an operand on another device" if meta[line]["kind"] == "otherdev" else
                                   "an accumulator whose batch differs from its operand's", impl[:80], line[:300]),
                               replay_obj([line], observed_impl=impl, model=model))
            for r in crashes:
                if r.get("at_exit"):
                    chk.report("karith:at-exit:%s" % r["kind"], "sanitizer report at process exit: %s" % r["kind"],
                               replay_obj(lines[:50], stderr=r.get("stderr", "")[-1500:]))
        # ---- C08: the two backends
        if p == "C08":
            for line, m in meta.items():
                if not line.startswith("naive ") or not m.get("twin"):
                    continue
                a, b = got[line][0], got[m["twin"]][0]
                if a.startswith("crash") or b.startswith("crash"):
                    continue
                if not same_backends(a, b, m["cls"]):
                    chk.report("karith:%s:naive-vs-eigen" % m["kernel"],
                               "Naive and Eigen disagree on `%s`: naive %s ; eigen %s" % (line[6:][:300], describe(a), describe(b)),
                               replay_obj([line, m["twin"]], naive=a, eigen=b))
        # ---- C02: forward kernels
        if p == "C02":
            for line, m in meta.items():
                impl, model = got[line]
                if impl.startswith("crash"):
                    continue
                if m["kind"] in ("fw", "sample", "malformed") and (line in dis_lines) and not m["kernel"].endswith("_bw") and not m["kernel"].endswith("_grad"):
                    chk.report("karith:%s:fw-differs-from-spec:%s" % (m["kernel"], line.split(" ")[0]),
                               "forward value differs from the model (= specification, Props/C02/Arith.lean): " + what_line(line),
                               replay_obj([line], observed_impl=impl, model=model))
                w = spec_check(m, impl) if m["kind"] == "fw" else None
                if w:
                    chk.report("karith:%s:fw-differs-from-oracle:%s" % (m["kernel"], line.split(" ")[0]),
                               "`%s`: %s" % (line[:300], w), replay_obj([line], observed_impl=impl, model=model))
                if m.get("large") and m["kind"] == "fw":
                    w2 = large_nonfinite(impl, model)
                    if w2:
                        chk.report("karith:%s:nan-or-inf-at-large-input:%s" % (m["kernel"], line.split(" ")[0]),
                                   "forward kernel returns NaN/inf for a large finite input whose result is finite: `%s`: %s ; %s" % (
                                       line[:300], w2, what_line(line)[-300:]), replay_obj([line], observed_impl=impl, model=model))
                if m.get("stable") and not finite_out(impl):
                    chk.report("karith:%s:overflow-or-nan:%s" % (m["kernel"], line.split(" ")[0]),
                               "stabilised function overflows or returns NaN on large finite inputs: " + what_line(line),
                               replay_obj([line], observed_impl=impl, model=model))
        # ---- C01: backward kernels
        if p == "C01":
            for line, m in meta.items():
                impl, model = got[line]
                if m.get("large") and m["kind"] == "grad" and not impl.startswith("crash"):
                    w2 = large_nonfinite(impl, model)
                    if w2:
                        chk.report("karith:%s:nan-or-inf-at-large-input:%s" % (m["kernel"], line.split(" ")[0]),
                                   "bw(fw(x)) returns NaN/inf for a large finite input whose gradient is finite: `%s`: %s" % (line[:300], w2),
                                   replay_obj([line], observed_impl=impl, model=model))
                if impl.startswith("crash") or line not in dis_lines:
                    continue
                k = m["kernel"]
                if m["kind"] == "grad" or k.endswith("_grad"):
                    if pown_zero_case(line, meta, impl, model):
                        key = "karith:pown_bw:nan-at-zero:k>=0"
                    else:
                        key = "karith:%s:wrong-gradient:%s" % (k, line.split(" ")[0])
                    chk.report(key, "bw(fw(x)) differs from gy·f'(x) derived from the FORWARD formula by dual numbers: " + what_line(line),
                               replay_obj([line], observed_impl=impl, model=model))
                elif k.endswith("_bw"):
                    chk.report("karith:%s:bw-differs-from-model:%s" % (k, line.split(" ")[0]),
                               "backward kernel differs from the model's backward (the proved adjoint, Props/C01/Arith.lean): " + what_line(line),
                               replay_obj([line], observed_impl=impl, model=model))
        # ---- C03: minibatch law
        if p == "C03":
            for line, m in meta.items():
                if "samples" not in m:
                    continue
                if any(got[s][0].startswith("crash") for s in [line] + m["samples"]):
                    continue
                w = eval_samples(line, m, got)
                if w:
                    chk.report("karith:%s:batch-law:%s" % (m["kernel"], line.split(" ")[0]), "`%s`: %s" % (line[:300], w),
                               replay_obj([line] + m["samples"], observed_impl=got[line][0]))
            # the fold of a minibatch into a shared destination (x[B] added into y[1]: the sum over the samples) is what
            # carries every gradient into a batch-1 operand; exact on the integer / dyadic data of these lines
            for line, m in meta.items():
                impl, model = got[line]
                if m["kernel"] in ("inplace_add", "inplace_subtract") and line in dis_lines and impl.startswith("ok") and model.startswith("ok"):
                    chk.report("karith:%s:batch-fold:%s" % (m["kernel"], line.split(" ")[0]),
                               "the sum over the samples folded into a shared destination is wrong: " + what_line(line),
                               replay_obj([line], observed_impl=impl, model=model))
    # correspondence failures not attributable to a property of this run (e.g. acceptance differs)
    for d in dis:
        if d["impl"].startswith("crash"):
            continue
        m = meta[d["line"]]
        st_i, st_m = d["impl"].split(" ")[0], d["model"].split(" ")[0]
        if st_i != st_m:
            chk.report("karith:%s:acceptance:%s:%s-vs-%s" % (m["kernel"], d["line"].split(" ")[0], st_i, st_m),
                       "implementation answers `%s`, the model `%s` on `%s`: the model of the front-end guards no longer describes the code"
                       % (d["impl"][:60], d["model"][:60], d["line"][:300]),
                       replay_obj([d["line"]], observed_impl=d["impl"], model=d["model"], broken="correspondence karith/h_karith"),
                       found_input=False)
    broken = chk.broken_obligations()
    if broken and not chk.violations:
        for name, why in broken.items():
            chk.report("obligation:" + name, "theorem %s no longer checks: %s" % (name, why),
                       {"theorem": name, "reason": why, "log": (chk.oblig or {}).get("log_tail", "")[-1500:]}, found_input=False)
    import collections
    kc = collections.Counter()
    for line, (impl, model) in got.items():
        kc[meta[line]["kernel"] + ":" + impl.split(" ")[0]] += 1
    chk.extra_cov["karith_lines_by_kernel"] = dict(sorted(kc.items()))
    cm = {}
    for line, m in meta.items():
        for tag in m.get("tags", []):
            base = re.sub(r"_(fw|bw|grad)$", "", m["kernel"])
            cm.setdefault(base, collections.Counter())[tag] += 1
    chk.extra_cov["karith_coverage_matrix"] = {k: dict(v) for k, v in sorted(cm.items())}
    chk.extra_cov["karith_coverage_tags"] = ("large = large-magnitude finite inputs (88.73, 100, 1e4, 3e38, both signs); bigmat = matmul "
                                             "dims from {1,2,7,8,9,15,16,17,20,33}; badgx = accumulator with another batch (must be err, "
                                             "accumulator unchanged); allpad = padding >= window / kernel extent; otherdev = an operand on "
                                             "the other backend's device (must be err); counts are lines (both backends)")
    chk.extra_cov["karith_metamorphic_groups"] = sum(1 for m in meta.values() if "samples" in m)
    chk.extra_cov["karith_backend_pairs"] = sum(1 for l, m in meta.items() if l.startswith("naive ") and m.get("twin"))
    rule = ("karith: operation lines `<dev> <kernel> <tensors> <args>` for every arithmetic kernel (11 unary, 10 const, pown, 8 scalar, "
            "5 broadcasting binary, matmul, conv2d, max_pool2d, logsumexp, 3 in-place), forward, backward and `_grad` (bw∘fw) forms, each on "
            "Naive and Eigen; shapes of depth 0..4 with dims 1..5, batch patterns {1,B}x{1,B}; exact domain (small integers, dyadics) compared "
            "exactly, transcendental domain with tolerance 2^-18·max(1,|v|); rejected calls (shape/batch mismatch, zero stride), large-magnitude "
            "inputs for softplus/sigmoid/logsumexp, paddings/strides/dilations near 2^31 and 2^32, malformed lines; per-sample lines for the "
            "minibatch law. Non-trivial = accepted by the implementation; distinct = distinct lines.")
    if rule not in chk.rule:
        chk.rule = (chk.rule + " " + rule).strip()
    t = ("modelled, not verified: loop kernels and front-end guards of the arithmetic kernels are hand-modelled (Model/KernelsArith.lean) and tied to "
         "the code by the karith correspondence; float32 rounding is outside every theorem (tolerance 2^-18 measured, not proved)")
    if t not in chk.trusted:
        chk.trusted.append(t)
    for p in props:
        for s in STATED_NOT_PROVED.get(p, []):
            if s not in chk.stated_not_proved:
                chk.stated_not_proved.append(s)


# ----------------------------------------------------------------------------
# special values: the two backends on +-inf, NaN, subnormals, +-0 and the largest finite floats (C08: "all inputs")
# ----------------------------------------------------------------------------
SPECIALS = [("inf", math.inf), ("-inf", -math.inf), ("nan", math.nan), ("subnormal", 1e-40), ("-subnormal", -1e-40),
            ("zero", 0.0), ("-zero", -0.0), ("max", 3.0e38), ("-max", -3.0e38), ("min-normal", 1.2e-38), ("three", 3.0), ("-three", -3.0)]


def _dtok(x):
    import struct
    return "x%016x" % struct.unpack("<Q", struct.pack("<d", x))[0]


def _f32_of(tok_):
    import struct
    return struct.unpack("<f", struct.pack("<I", int(tok_[1:], 16)))[0]


def special_lines():
    """(kernel key, [line for naive, line for eigen], class names per element).  Every special value sits once in the
    vectorised part of the array (first 16 elements) and once in the scalar tail."""
    names = [n for n, _ in SPECIALS] * 3
    vals = [v for _, v in SPECIALS] * 3
    n = len(vals)
    xs = ",".join(_dtok(v) for v in vals)
    ones = ",".join(["1"] * n)
    out = []
    for k in sorted(UNARY):
        out.append((k + "_fw", "%s_fw T:%d/1:%s" % (k, n, xs), names))
        if UNARY[k][0]:
            out.append((k + "_bw", "%s_grad T:%d/1:%s T:%d/1:%s" % (k, n, xs, n, ones), names))
    for k in sorted(CONST):
        for kv in (0.5, 2.0):
            out.append((k + "_fw", "%s_fw T:%d/1:%s K:%s" % (k, n, xs, _dtok(kv)), names))
            out.append((k + "_bw", "%s_grad T:%d/1:%s T:%d/1:%s K:%s" % (k, n, xs, n, ones, _dtok(kv)), names))
    for kk in (2, -2, 3):
        out.append(("pown_fw", "pown_fw T:%d/1:%s %d" % (n, xs, kk), names))
    for k in sorted(BINARY):
        out.append((k + "_fw", "%s_fw T:%d/1:%s T:%d/1:%s" % (k, n, xs, n, ",".join(_dtok(v) for v in reversed(vals))), names))
    return out


def run_special_values(chk):
    """Naive against Eigen, element by element: both NaN (any sign/payload) agree, equal values agree (+0 == -0),
    finite values agree within 1e-5 relative; anything else is a backend deviation, reported once per kernel with the
    classes of input on which it occurs."""
    exe = build.build_harness(HARNESS)
    cases = special_lines()
    lines = []
    for _, l, _ in cases:
        lines += ["naive " + l, "eigen " + l]
    outs, _ = vrun.run_impl(exe, lines, timeout=300)
    chk.traces += 1
    per_kernel = {}
    for i, (key, l, names) in enumerate(cases):
        a, b = outs[2 * i], outs[2 * i + 1]
        chk.count("naive|eigen " + l[:120], a, a.startswith("ok"))
        if not (a.startswith("ok") and b.startswith("ok")):
            if a.split(" ")[0] != b.split(" ")[0] or a.startswith("crash") or b.startswith("crash"):
                per_kernel.setdefault(key, {"classes": set(), "examples": []})
                per_kernel[key]["classes"].add("status")
                per_kernel[key]["examples"].append((l, "naive `%s` eigen `%s`" % (a[:80], b[:80])))
            continue
        va = [t for t in a.split(" ", 2)[2].split(" | ")[0].split(",")]
        vb = [t for t in b.split(" ", 2)[2].split(" | ")[0].split(",")]
        for j, (x, y) in enumerate(zip(va, vb)):
            if x == y or x == "C" or y == "C":
                if x != y:
                    pass
                else:
                    continue
            try:
                fx, fy = _f32_of(x), _f32_of(y)
            except Exception:
                fx, fy = math.nan, 0.0
            if fx != fx and fy != fy:
                continue
            if fx == fy:
                continue
            if not (fx != fx or fy != fy or math.isinf(fx) or math.isinf(fy)) and abs(fx - fy) <= 1e-5 * max(abs(fx), abs(fy)) + 1e-6:
                continue        # float32 rounding of the quantities entering the formula (1 - tanh^2 at |x| = 3 cancels five digits)
            d = per_kernel.setdefault(key, {"classes": set(), "examples": []})
            d["classes"].add(names[j])
            if len(d["examples"]) < 4:
                d["examples"].append((l, "element %d (input class %s): naive %s = %r, eigen %s = %r" % (j, names[j], x, fx, y, fy)))
    for key in sorted(per_kernel):
        d = per_kernel[key]
        l, ex = d["examples"][0]
        chk.report("karith:special-values:%s" % key,
                   "devices::Naive and devices::Eigen disagree on %s for inputs of class {%s}: %s" % (key, ", ".join(sorted(d["classes"])), "; ".join(e for _, e in d["examples"][:3])),
                   {"family": FAMILY, "harness": HARNESS, "lines": ["naive " + l, "eigen " + l], "model_family": None,
                    "observed": [e for _, e in d["examples"]], "input_classes": sorted(d["classes"])})
    chk.extra_cov["special_value_kernels_compared"] = len(cases)
