"""Family `kernels` (data movement, axis-wise reduction, selection kernels of
primitiv::Device, forward and backward, both CPU backends) — library used by
props/C02.py, C03.py, C08.py, C10.py, C11.py and by the pseudo-property KMOVE.

    MODS[prop]        Lean modules whose theorems are the obligations of `prop`
    DRIVERS           model drivers needed
    streams(rng,tier) generated operation lines
    run_family(chk, prop)

The oracle of this file (`spec_line`) is a *third* implementation, written over
multi-indices from the doc comments of basic_functions.h (column-major layout,
minibatch as last axis); it shares no index arithmetic with the C++ kernels or
with the Lean model.
"""
import itertools, os, re
from vlib import build

MODS = {
    "C01": ["PrimitivModel.Props.C01.Move"],
    "C02": ["PrimitivModel.Props.C02.Move"],
    "C03": ["PrimitivModel.Props.C03.Move"],
    "C08": ["PrimitivModel.Props.C08.Move"],
    "C10": ["PrimitivModel.Props.C10.Move"],   # Guard.<entry>_sound (re-exported from C11), Fail.<entry>
    "C11": ["PrimitivModel.Props.C11.Move"],
}
DRIVERS = ["kernels"]
STATED_NOT_PROVED = {"C01": [], "C02": [], "C03": [], "C08": [], "C10": [], "C11": []}
FAMILY, HARNESS = "kernels", "h_kernels"
W = 2 ** 32
AXES_EXTRA = [7, 8, 9, W - 1]

# ----------------------------------------------------------------------------
# specification oracle over multi-indices
# ----------------------------------------------------------------------------


class PT(object):
    """dims: canonical list (no trailing 1), batch, vals: column-major, batch last; loc: T/O/I"""

    def __init__(self, dims, batch, vals, loc="T"):
        self.dims, self.batch, self.vals, self.loc = list(dims), batch, list(vals), loc

    def tok(self):
        if self.loc == "I":
            return "I"
        return "%s:%s/%d:%s" % (self.loc, ",".join(map(str, self.dims)), self.batch, ",".join(map(str, self.vals)))


class SpecErr(Exception):
    pass


def trim(d):
    d = list(d)
    while d and d[-1] == 1:
        d.pop()
    return d


def prod(l):
    r = 1
    for x in l:
        r *= x
    return r


def shape_ok(dims, batch):
    return len(dims) <= 8 and all(d > 0 for d in dims) and batch > 0 and prod(dims) * batch < W


def mk_shape(dims, batch):
    if not shape_ok(dims, batch):
        raise SpecErr()
    return trim(dims), batch


def dim_at(dims, i):
    return dims[i] if i < len(dims) else 1


def pad8(dims):
    return list(dims) + [1] * (8 - len(dims))


def indices(dims8):
    """multi-indices of a shape in column-major order (first axis fastest)"""
    for rev in itertools.product(*[range(d) for d in reversed(dims8)]):
        yield tuple(reversed(rev))


def to_map(t):
    m = {}
    d8 = pad8(t.dims)
    it = iter(t.vals)
    for b in range(t.batch):
        for mi in indices(d8):
            m[(mi, b)] = next(it)
    return m


def from_fn(dims, batch, f):
    dims, batch = mk_shape(dims, batch)
    d8 = pad8(dims)
    vals = [f(mi, b) for b in range(batch) for mi in indices(d8)]
    return PT(dims, batch, vals)


def set_axis(mi, d, v):
    l = list(mi)
    l[d] = v
    return tuple(l)


def bsel(t, b):
    """sample index of a possibly batch-1 operand"""
    return b if t.batch > 1 else 0


def need(c):
    if not c:
        raise SpecErr()


def with_dim(dims, d, m):
    need(d < 8)
    p = pad8(dims)
    p[d] = m
    return p


def compat(a, b):
    return a == b or a == 1 or b == 1


def sp_pick(x, dim, ids):
    n = dim_at(x.dims, dim)
    need(len(ids) >= 1 and (x.batch == len(ids) or x.batch == 1 or len(ids) == 1))
    need(all(i < n for i in ids))
    need(dim < 8)
    X = to_map(x)
    B = max(x.batch, len(ids))
    return from_fn(with_dim(x.dims, dim, 1), B,
                   lambda mi, b: X[(set_axis(mi, dim, ids[b if len(ids) > 1 else 0]), bsel(x, b))])


def sp_slice(x, dim, lo, up):
    need(lo < up and up <= dim_at(x.dims, dim))
    if dim >= 8:
        return PT(x.dims, x.batch, x.vals)
    X = to_map(x)
    return from_fn(with_dim(x.dims, dim, up - lo), x.batch, lambda mi, b: X[(set_axis(mi, dim, mi[dim] + lo), b)])


def common_batch(ts):
    B = 1
    for t in ts:
        if t.batch != 1:
            need(B == 1 or B == t.batch)
            B = t.batch
    return B


def sp_concat(xs, dim):
    need(len(xs) >= 1)
    x0 = xs[0]
    for x in xs[1:]:
        need(all(i == dim or dim_at(x0.dims, i) == dim_at(x.dims, i) for i in range(8)))
    B = common_batch(xs)
    need(dim < 8)
    total = sum(dim_at(x.dims, dim) for x in xs)
    maps = [to_map(x) for x in xs]
    starts, o = [], 0
    for x in xs:
        starts.append(o)
        o += dim_at(x.dims, dim)

    def f(mi, b):
        k = mi[dim]
        for m in range(len(xs) - 1, -1, -1):
            if k >= starts[m]:
                return maps[m][(set_axis(mi, dim, k - starts[m]), bsel(xs[m], b))]
    return from_fn(with_dim(x0.dims, dim, total), B, f)


def sp_transpose(x):
    need(len(x.dims) <= 2)
    X = to_map(x)
    return from_fn([dim_at(x.dims, 1), dim_at(x.dims, 0)], x.batch,
                   lambda mi, b: X[((mi[1], mi[0]) + mi[2:], b)])


def sp_permute(x, perm):
    n = len(perm)
    need(n >= len(x.dims))
    need(sorted(perm) == list(range(n)))
    need(n <= 8)
    X = to_map(x)
    ydims = [dim_at(x.dims, p) for p in perm]

    def f(mj, b):
        mi = [0] * 8
        for k in range(n):
            mi[perm[k]] = mj[k]
        return X[(tuple(mi), b)]
    return from_fn(ydims, x.batch, f)


def sp_flip(x, dim):
    if dim >= 8:
        return PT(x.dims, x.batch, x.vals)
    n = dim_at(x.dims, dim)
    X = to_map(x)
    return from_fn(x.dims, x.batch, lambda mi, b: X[(set_axis(mi, dim, n - 1 - mi[dim]), b)])


def sp_reduce(x, dim, red):
    need(dim < 8)
    n = dim_at(x.dims, dim)
    X = to_map(x)
    return from_fn(with_dim(x.dims, dim, 1), x.batch,
                   lambda mi, b: red([X[(set_axis(mi, dim, k), b)] for k in range(n)]))


def sp_broadcast(x, dim, size):
    need(dim_at(x.dims, dim) == 1 and size != 0)
    need(dim < 8)
    X = to_map(x)
    return from_fn(with_dim(x.dims, dim, size), x.batch, lambda mi, b: X[(set_axis(mi, dim, 0), b)])


def sp_arg(x, dim, best):
    """positions of the first extremum along `dim`, one per (below, above, sample)"""
    X = to_map(x)
    if dim >= 8:
        return [0] * (prod(x.dims) * x.batch)
    n = dim_at(x.dims, dim)
    d8 = pad8(x.dims)
    d8[dim] = 1
    out = []
    for b in range(x.batch):
        for mi in indices(d8):
            col = [X[(set_axis(mi, dim, k), b)] for k in range(n)]
            out.append(col.index(best(col)))
    return out


def same_shape(a, b):
    return a.dims == b.dims and a.batch == b.batch


def accum(gx, f_items):
    """gx += contributions; f_items yields ((mi, b), value)"""
    G = to_map(gx)
    for key, v in f_items:
        G[key] += v
    return from_fn(gx.dims, gx.batch, lambda mi, b: G[(mi, b)])


def sp_pick_bw(gy, gx, dim, ids):
    sy = sp_pick(PT(gx.dims, gx.batch, [0] * (prod(gx.dims) * gx.batch)), dim, ids)
    need(same_shape(gy, sy))
    GY = to_map(gy)
    items = [((set_axis(mi, dim, ids[b if len(ids) > 1 else 0]), bsel(gx, b)), v) for (mi, b), v in sorted(GY.items(), key=lambda kv: (kv[0][1], kv[0][0][::-1]))]
    return accum(gx, items)


def sp_slice_bw(gy, gx, dim, off):
    need(all(i == dim or dim_at(gy.dims, i) == dim_at(gx.dims, i) for i in range(8)))
    need(compat(gy.batch, gx.batch))
    need(off + dim_at(gy.dims, dim) <= dim_at(gx.dims, dim))
    GY = to_map(gy)
    B = max(gy.batch, gx.batch)
    d8 = pad8(gy.dims)
    items = []
    for b in range(B):
        for mi in indices(d8):
            tgt = set_axis(mi, dim, mi[dim] + off) if dim < 8 else mi
            items.append(((tgt, bsel(gx, b)), GY[(mi, bsel(gy, b))]))
    return accum(gx, items)


def sp_unary_bw(fw, x, y, gy, gx):
    """backward of a permutation-like forward kernel: guard of DEV_BW_X, gx += fw^T gy"""
    need(same_shape(x, gx) and same_shape(y, gy))
    sy = fw(x)
    need(same_shape(y, sy))
    return sy


def sp_transpose_bw(x, y, gy, gx):
    sp_unary_bw(sp_transpose, x, y, gy, gx)
    t = sp_transpose(gy)
    return PT(gx.dims, gx.batch, [a + b for a, b in zip(gx.vals, t.vals)])


def sp_permute_bw(x, y, gy, gx, perm):
    sy = sp_permute(x, perm)
    need(same_shape(y, sy) and same_shape(gy, sy) and same_shape(gx, x))
    n = len(perm)
    GY = to_map(gy)

    def src(mi, b):
        mj = [0] * 8
        for k in range(n):
            mj[k] = mi[perm[k]]
        return GY[(tuple(mj), b)]
    G = to_map(gx)
    return from_fn(gx.dims, gx.batch, lambda mi, b: G[(mi, b)] + src(mi, b))


def sp_flip_bw(gy, gx, dim):
    need(same_shape(gy, gx))
    t = sp_flip(gy, dim)
    return PT(gx.dims, gx.batch, [a + b for a, b in zip(gx.vals, t.vals)])


def sp_max_bw(x, y, gy, gx, dim):
    need(dim < 8)
    s = PT(*mk_shape(with_dim(x.dims, dim, 1), x.batch), vals=[])
    need(same_shape(gx, x) and same_shape(y, s) and same_shape(gy, s))
    X, Y, GY = to_map(x), to_map(y), to_map(gy)
    n = dim_at(x.dims, dim)
    items = []
    for (mi, b), v in Y.items():
        for k in range(n):
            if X[(set_axis(mi, dim, k), b)] == v:
                items.append(((set_axis(mi, dim, k), b), GY[(mi, b)]))
                break
    return accum(gx, items)


def sp_batch_pick(x, ids):
    need(len(ids) >= 1 and all(i < x.batch for i in ids))
    X = to_map(x)
    return from_fn(x.dims, len(ids), lambda mi, b: X[(mi, ids[b])])


def sp_batch_pick_bw(gy, gx, ids):
    need(len(ids) >= 1 and all(i < gx.batch for i in ids))
    need(gy.dims == gx.dims and gy.batch == len(ids))
    GY = to_map(gy)
    return accum(gx, [((mi, ids[b]), v) for (mi, b), v in GY.items()])


def sp_batch_slice(x, lo, up):
    need(lo < up and up <= x.batch)
    X = to_map(x)
    return from_fn(x.dims, up - lo, lambda mi, b: X[(mi, b + lo)])


def sp_batch_slice_bw(gy, gx, off):
    need(gy.dims == gx.dims and off + gy.batch <= gx.batch)
    GY = to_map(gy)
    return accum(gx, [((mi, b + off), v) for (mi, b), v in GY.items()])


def sp_batch_concat(xs):
    need(len(xs) >= 1 and all(x.dims == xs[0].dims for x in xs))
    vals = []
    for x in xs:
        vals += x.vals
    need(shape_ok(xs[0].dims, sum(x.batch for x in xs)))
    return PT(xs[0].dims, sum(x.batch for x in xs), vals)


def sp_batch_sum(x):
    X = to_map(x)
    return from_fn(x.dims, 1, lambda mi, b: sum(X[(mi, k)] for k in range(x.batch)))


def sp_identity(n):
    need(n != 0)
    return from_fn([n, n], 1, lambda mi, b: 1 if mi[0] == mi[1] else 0)


def show(t):
    return "ok T:%s/%d:%s" % (",".join(map(str, t.dims)), t.batch, ",".join(map(str, t.vals)))


TENSOR_METHODS = ("argmax", "argmin", "to_vector", "reset", "reset_array", "reset_vector")


def parse_line(line):
    w = line.split()
    dev, op = w[0], w[1]
    ts, ss, vs, ns = [], [], [], []
    for t in w[2:]:
        if t == "I":
            ts.append(PT([], 1, [0], "I"))
        elif ":" in t:
            p = t.split(":")
            if p[0] in ("T", "O"):
                d, b = p[1].split("/")
                dims = [int(v) for v in d.split(",")] if d else []
                vals = [int(v) for v in p[2].split(",")] if p[2] else []
                ts.append((p[0], dims, int(b), vals))
            elif p[0] == "S":
                d, b = p[1].split("/")
                ss.append(([int(v) for v in d.split(",")] if d else [], int(b)))
            elif p[0] == "V":
                vs.append([int(v) for v in p[1].split(",")] if p[1] else [])
        else:
            ns.append(int(t))
    return dev, op, ts, ss, vs, ns


def spec_line(line):
    """Expected result line according to the documentation-level specification."""
    dev, op, raw_ts, raw_ss, vs, ns = parse_line(line)
    try:
        ts = []
        for t in raw_ts:
            if isinstance(t, PT):
                ts.append(t)
                continue
            loc, dims, b, vals = t
            d, b = mk_shape(dims, b)
            need(len(vals) == prod(d) * b)
            ts.append(PT(d, b, vals, loc))
        ss = [mk_shape(d, b) for d, b in raw_ss]
        # device / validity checks
        for t in ts:
            need(t.loc != "I")
            if t.loc == "O":
                need(op == "copy" or op in TENSOR_METHODS)
        if op == "pick_fw":
            return show(sp_pick(ts[0], ns[0], ns[1:]))
        if op == "pick_bw":
            return show(sp_pick_bw(ts[0], ts[1], ns[0], ns[1:]))
        if op == "slice_fw":
            return show(sp_slice(ts[0], ns[0], ns[1], ns[2]))
        if op == "slice_bw":
            return show(sp_slice_bw(ts[0], ts[1], ns[0], ns[1]))
        if op == "concat_fw":
            return show(sp_concat(ts, ns[0]))
        if op == "transpose_fw":
            return show(sp_transpose(ts[0]))
        if op == "transpose_bw":
            return show(sp_transpose_bw(*ts))
        if op == "permute_dims_fw":
            return show(sp_permute(ts[0], ns))
        if op == "permute_dims_bw":
            return show(sp_permute_bw(ts[0], ts[1], ts[2], ts[3], ns))
        if op == "flip_fw":
            return show(sp_flip(ts[0], ns[0]))
        if op == "flip_bw":
            return show(sp_flip_bw(ts[0], ts[1], ns[0]))
        if op == "sum_fw":
            return show(sp_reduce(ts[0], ns[0], sum))
        if op == "max_fw":
            return show(sp_reduce(ts[0], ns[0], max))
        if op == "min_fw":
            return show(sp_reduce(ts[0], ns[0], min))
        if op in ("max_bw", "min_bw"):
            return show(sp_max_bw(ts[0], ts[1], ts[2], ts[3], ns[0]))
        if op == "broadcast_fw":
            return show(sp_broadcast(ts[0], ns[0], ns[1]))
        if op == "argmax":
            return "ok ids:" + ",".join(map(str, sp_arg(ts[0], ns[0], max)))
        if op == "argmin":
            return "ok ids:" + ",".join(map(str, sp_arg(ts[0], ns[0], min)))
        if op == "batch_pick_fw":
            return show(sp_batch_pick(ts[0], ns))
        if op == "batch_pick_bw":
            return show(sp_batch_pick_bw(ts[0], ts[1], ns))
        if op == "batch_slice_fw":
            return show(sp_batch_slice(ts[0], ns[0], ns[1]))
        if op == "batch_slice_bw":
            return show(sp_batch_slice_bw(ts[0], ts[1], ns[0]))
        if op == "batch_concat_fw":
            return show(sp_batch_concat(ts))
        if op == "batch_sum_fw":
            return show(sp_batch_sum(ts[0]))
        if op == "copy":
            return show(ts[0])
        if op == "identity":
            return show(sp_identity(ns[0]))
        if op == "new_const":
            return show(PT(ss[0][0], ss[0][1], [ns[0]] * (prod(ss[0][0]) * ss[0][1])))
        if op in ("new_array", "new_vector"):
            need(len(vs[0]) == prod(ss[0][0]) * ss[0][1])
            return show(PT(ss[0][0], ss[0][1], vs[0]))
        if op == "reset":
            return show(PT(ts[0].dims, ts[0].batch, [ns[0]] * len(ts[0].vals)))
        if op in ("reset_array", "reset_vector"):
            need(len(vs[0]) == len(ts[0].vals))
            return show(PT(ts[0].dims, ts[0].batch, vs[0]))
        if op == "to_vector":
            return "ok vec:" + ",".join(map(str, ts[0].vals))
    except SpecErr:
        return "err"
    return "bad-op"


# ----------------------------------------------------------------------------
# generators
# ----------------------------------------------------------------------------

FW1 = ["pick_fw", "slice_fw", "transpose_fw", "permute_dims_fw", "flip_fw", "sum_fw", "broadcast_fw", "max_fw", "min_fw",
       "argmax", "argmin", "batch_pick_fw", "batch_slice_fw", "batch_sum_fw", "copy", "to_vector"]
BW = ["pick_bw", "slice_bw", "transpose_bw", "permute_dims_bw", "flip_bw", "max_bw", "min_bw", "batch_pick_bw", "batch_slice_bw"]
MULTI = ["concat_fw", "batch_concat_fw"]
MISC = ["identity", "new_const", "new_array", "new_vector", "reset", "reset_array", "reset_vector"]
ALL_OPS = FW1 + BW + MULTI + MISC
BATCH_AGNOSTIC = ["pick_fw", "slice_fw", "transpose_fw", "permute_dims_fw", "flip_fw", "sum_fw", "broadcast_fw", "max_fw", "min_fw",
                  "argmax", "argmin", "concat_fw", "pick_bw", "slice_bw", "transpose_bw", "permute_dims_bw", "flip_bw", "max_bw", "min_bw"]


def rand_dims(rng, maxsize=96, depth=None):
    if depth is None:
        depth = rng.choice([0, 1, 1, 2, 2, 2, 3, 3, 3, 4, 4, 5, 6, 7, 8])
    dims = []
    for _ in range(depth):
        r = rng.random()
        dims.append(1 if r < 0.3 else rng.choice([2, 2, 3, 3, 4, 5]))
    while prod(dims) > maxsize:
        i = rng.randrange(len(dims))
        dims[i] = max(1, dims[i] - 1)
    return dims


def rand_vals(rng, n):
    lim = rng.choice([2, 9, 9, 30])
    return [rng.randint(-lim, lim) for _ in range(n)]


def rand_t(rng, dims, batch, loc="T"):
    d = trim(dims)
    return PT(d, batch, rand_vals(rng, prod(d) * batch), loc)


def rand_axis(rng, depth):
    r = rng.random()
    if r < 0.55 and depth > 0:
        return rng.randrange(depth)
    if r < 0.85:
        return rng.randrange(0, depth + 2)
    return rng.choice(AXES_EXTRA)


def zeros_like(dims, batch):
    d = trim(dims)
    return PT(d, batch, [0] * (prod(d) * batch))


def gen_valid(rng, op, B=None):
    """One (mostly) admissible line for `op`, without the device token."""
    B = B or rng.choice([2, 2, 3, 4])
    bx = rng.choice([1, B])
    dims = rand_dims(rng, 96 // max(bx, 1))
    depth = len(trim(dims))
    ax = rand_axis(rng, len(dims))
    x = rand_t(rng, dims, bx)
    n = dim_at(dims, ax)
    near = lambda hi: rng.choice([0, 0, hi - 1, hi - 1, hi // 2, hi])  # both ends, and just outside
    if op == "pick_fw":
        k = rng.choice([1, B if bx == 1 else bx, bx, rng.choice([1, 2, 3])])
        ids = [max(0, near(n)) for _ in range(k)]
        return "pick_fw %s %d %s" % (x.tok(), ax, " ".join(map(str, ids)))
    if op == "pick_bw":
        k = rng.choice([1, B if bx == 1 else bx, bx])
        ids = [rng.randrange(n) for _ in range(k)]
        gx = rand_t(rng, dims, bx)
        by = max(bx, k)
        gyd = list(pad8(dims))
        if ax < 8:
            gyd[ax] = 1
        gy = rand_t(rng, gyd, by)
        return "pick_bw %s %s %d %s" % (gy.tok(), gx.tok(), ax, " ".join(map(str, ids)))
    if op == "slice_fw":
        lo = max(0, near(n))
        up = rng.choice([n, n, lo + 1, n + 1, lo, min(n, lo + 2)])
        return "slice_fw %s %d %d %d" % (x.tok(), ax, lo, up)
    if op == "slice_bw":
        by = rng.choice([1, B])
        ln = rng.randint(1, n)
        off = rng.choice([0, n - ln, n - ln, rng.randint(0, n - ln), n - ln + 1])
        gyd = list(pad8(dims))
        if ax < 8:
            gyd[ax] = ln
        gy = rand_t(rng, gyd, by)
        return "slice_bw %s %s %d %d" % (gy.tok(), x.tok(), ax, off)
    if op == "transpose_fw":
        d = rand_dims(rng, 48, depth=rng.choice([0, 1, 2, 2, 2, 3]))
        return "transpose_fw " + rand_t(rng, d, bx).tok()
    if op == "transpose_bw":
        d = rand_dims(rng, 48, depth=rng.choice([0, 1, 2, 2, 2]))
        xx = rand_t(rng, d, bx)
        y = sp_transpose(xx)
        gy = rand_t(rng, y.dims, y.batch)
        gx = rand_t(rng, xx.dims, xx.batch)
        return "transpose_bw %s %s %s %s" % (xx.tok(), y.tok(), gy.tok(), gx.tok())
    if op in ("permute_dims_fw", "permute_dims_bw"):
        nn = rng.choice([depth, depth, depth, depth + 1, min(8, depth + 2), 8])
        perm = list(range(nn))
        rng.shuffle(perm)
        r = rng.random()
        if r < 0.06 and perm:
            perm[rng.randrange(nn)] = rng.choice([nn, nn + 1, W - 1])
        elif r < 0.12 and nn >= 2:
            perm[0] = perm[1]
        elif r < 0.16 and nn > 0:
            perm = perm[:-1]
        if op == "permute_dims_fw":
            return "permute_dims_fw %s %s" % (x.tok(), " ".join(map(str, perm)))
        try:
            y = sp_permute(x, perm)
        except SpecErr:
            y = x
        gy = rand_t(rng, y.dims, y.batch)
        gx = rand_t(rng, x.dims, x.batch)
        return "permute_dims_bw %s %s %s %s %s" % (x.tok(), y.tok(), gy.tok(), gx.tok(), " ".join(map(str, perm)))
    if op == "flip_fw":
        return "flip_fw %s %d" % (x.tok(), ax)
    if op == "flip_bw":
        return "flip_bw %s %s %d" % (rand_t(rng, dims, bx).tok(), x.tok(), ax)
    if op in ("sum_fw", "max_fw", "min_fw", "argmax", "argmin"):
        return "%s %s %d" % (op, x.tok(), ax)
    if op in ("max_bw", "min_bw"):
        try:
            y = sp_reduce(x, ax, max if op == "max_bw" else min)
        except SpecErr:
            y = x
        if rng.random() < 0.1:
            y = rand_t(rng, y.dims, y.batch)
        gy = rand_t(rng, y.dims, y.batch)
        gx = rand_t(rng, x.dims, x.batch)
        return "%s %s %s %s %s %d" % (op, x.tok(), y.tok(), gy.tok(), gx.tok(), ax)
    if op == "broadcast_fw":
        d = list(dims)
        if ax < len(d) and rng.random() < 0.9:
            d[ax] = 1
        size = rng.choice([1, 2, 3, 4, 0])
        return "broadcast_fw %s %d %d" % (rand_t(rng, d, bx).tok(), ax, size)
    if op == "batch_pick_fw":
        k = rng.choice([1, 2, 3, bx])
        ids = [max(0, near(bx)) for _ in range(k)]
        return "batch_pick_fw %s %s" % (x.tok(), " ".join(map(str, ids)))
    if op == "batch_pick_bw":
        k = rng.choice([1, 2, 3, bx])
        ids = [rng.randrange(bx) for _ in range(k)]
        return "batch_pick_bw %s %s %s" % (rand_t(rng, dims, k).tok(), x.tok(), " ".join(map(str, ids)))
    if op == "batch_slice_fw":
        lo = max(0, near(bx))
        up = rng.choice([bx, bx, lo + 1, bx + 1, lo])
        return "batch_slice_fw %s %d %d" % (x.tok(), lo, up)
    if op == "batch_slice_bw":
        ln = rng.randint(1, bx)
        off = rng.choice([0, bx - ln, bx - ln, bx - ln + 1])
        return "batch_slice_bw %s %s %d" % (rand_t(rng, dims, ln).tok(), x.tok(), off)
    if op == "batch_sum_fw":
        return "batch_sum_fw " + x.tok()
    if op == "copy":
        return "copy " + rand_t(rng, dims, bx, rng.choice(["T", "O", "O"])).tok()
    if op == "to_vector":
        return "to_vector " + x.tok()
    if op == "concat_fw":
        k = rng.choice([1, 2, 2, 3, 4])
        toks = []
        base = list(pad8(rand_dims(rng, 24)))
        mixed = rng.random() < 0.2      # batch sizes that are not all equal-or-1 (1,2,3 / 2,1,3 / ...): must be rejected as a whole
        for _ in range(k):
            d = list(base)
            if ax < 8:
                d[ax] = rng.choice([1, 1, 2, 3])
            toks.append(rand_t(rng, d, rng.choice([1, 2, 3]) if mixed else rng.choice([1, B])).tok())
        return "concat_fw %s %d" % (" ".join(toks), ax)
    if op == "batch_concat_fw":
        k = rng.choice([1, 2, 3, 4])
        return "batch_concat_fw " + " ".join(rand_t(rng, dims if prod(dims) <= 24 else [2, 3], rng.choice([1, 2, 3])).tok() for _ in range(k))
    if op == "identity":
        return "identity %d" % rng.choice([1, 2, 3, 4, 5, 0, 7])
    s = "S:%s/%d" % (",".join(map(str, dims)), bx)
    size = prod(dims) * bx
    if op == "new_const":
        return "new_const %s %d" % (s, rng.randint(0, 9))
    if op == "new_array":
        return "new_array %s V:%s" % (s, ",".join(map(str, rand_vals(rng, size))))
    if op == "new_vector":
        m = size if rng.random() < 0.8 else max(0, size + rng.choice([-1, 1]))
        return "new_vector %s V:%s" % (s, ",".join(map(str, rand_vals(rng, m))))
    if op == "reset":
        return "reset %s %d" % (x.tok(), rng.randint(0, 9))
    if op == "reset_array":
        return "reset_array %s V:%s" % (x.tok(), ",".join(map(str, rand_vals(rng, size))))
    if op == "reset_vector":
        m = size if rng.random() < 0.8 else max(0, size + rng.choice([-1, 1]))
        return "reset_vector %s V:%s" % (x.tok(), ",".join(map(str, rand_vals(rng, m))))
    raise ValueError(op)


TOK_RE = re.compile(r"^([TO]):([0-9,]*)/(\d+):([-0-9,]*)$")


def split_tok(t):
    m = TOK_RE.match(t)
    if not m:
        return None
    dims = [int(v) for v in m.group(2).split(",")] if m.group(2) else []
    vals = [int(v) for v in m.group(4).split(",")] if m.group(4) else []
    return PT(dims, int(m.group(3)), vals, m.group(1))


def gen_malformed(rng):
    """A line that should (mostly) be rejected: mismatched shapes, wrong ids
    counts, offsets near 2^32, tensors of the other device, invalid tensors."""
    op = rng.choice(FW1 + BW + BW + MULTI + ["identity", "reset_vector", "new_vector"])
    line = gen_valid(rng, op)
    w = line.split()
    tpos = [i for i, t in enumerate(w) if TOK_RE.match(t)]
    npos = [i for i, t in enumerate(w) if i > 0 and t.isdigit()]
    r = rng.random()
    if r < 0.25 and tpos:
        # perturb the shape of one operand
        i = rng.choice(tpos)
        t = split_tok(w[i])
        d = list(t.dims)
        c = rng.random()
        if c < 0.4 and d:
            j = rng.randrange(len(d)); d[j] = max(1, d[j] + rng.choice([-1, 1, 1]))
        elif c < 0.6:
            d = d + [2]
        elif c < 0.8:
            t.batch = rng.choice([1, 2, 3, 5])
        elif d:
            d = d[:-1]
        if prod(d) * t.batch <= 200:
            w[i] = rand_t(rng, d, t.batch, t.loc).tok()
    elif r < 0.4 and tpos:
        i = rng.choice(tpos)
        w[i] = "O" + w[i][1:] if rng.random() < 0.7 else "I"
    elif r < 0.7 and npos:
        i = rng.choice(npos)
        v = int(w[i])
        w[i] = str(rng.choice([W - 1, W - 2, W - v if 0 < v else W - 1, 2 ** 31, 2 ** 31 + v, W - 1 - v if v < W else 0, v + 1, 8, 9]))
    elif r < 0.8 and npos:
        # wrong number of trailing naturals (ids / perm)
        if rng.random() < 0.5 and len(npos) > 1:
            del w[npos[-1]]
        else:
            w.append(str(rng.choice([0, 1, 2])))
    elif r < 0.9 and tpos:
        # wrong number of values for the shape (new_tensor_by_vector must reject)
        i = rng.choice(tpos)
        w[i] = w[i] + ",1" if not w[i].endswith(":") else w[i] + "1"
    else:
        if tpos:
            i = rng.choice(tpos)
            t = split_tok(w[i])
            w[i] = "%s:%s/%d:" % (t.loc, ",".join(map(str, t.dims + [rng.choice([0, 65536, 65536])])), rng.choice([0, 1, 65536]))
    return " ".join(w)


KNOWN_SHAPES_SMALL = None


def exhaustive(rng):
    """depth <= 3, dims <= 3, axes 0..4 and 8, four batch patterns"""
    lines = []
    shapes = [list(d) for k in range(4) for d in itertools.product([1, 2, 3], repeat=k)]
    AX = [0, 1, 2, 3, 4, 8]
    for dims in shapes:
        for bx in (1, 2):
            x = rand_t(rng, dims, bx)
            lines.append("transpose_fw " + x.tok())
            lines.append("batch_sum_fw " + x.tok())
            lines.append("copy " + x.tok())
            lines.append("batch_slice_fw %s %d %d" % (x.tok(), bx - 1, bx))
            for perm in itertools.permutations(range(len(trim(dims)))):
                lines.append("permute_dims_fw %s %s" % (x.tok(), " ".join(map(str, perm))))
            for ax in AX:
                n = dim_at(dims, ax)
                for op in ("flip_fw", "sum_fw", "max_fw", "min_fw", "argmax", "argmin"):
                    lines.append("%s %s %d" % (op, x.tok(), ax))
                lines.append("flip_bw %s %s %d" % (rand_t(rng, dims, bx).tok(), x.tok(), ax))
                for lo in range(n):
                    for up in range(lo + 1, n + 1):
                        lines.append("slice_fw %s %d %d %d" % (x.tok(), ax, lo, up))
                        for by in (1, 2):
                            gyd = pad8(dims)
                            if ax < 8:
                                gyd[ax] = up - lo
                            lines.append("slice_bw %s %s %d %d" % (rand_t(rng, gyd, by).tok(), x.tok(), ax, lo))
                if n == 1:
                    lines.append("broadcast_fw %s %d %d" % (x.tok(), ax, 2))
                for nids in (1, 2):
                    if bx == 2 or True:
                        ids = [rng.randrange(n) for _ in range(nids)]
                        lines.append("pick_fw %s %d %s" % (x.tok(), ax, " ".join(map(str, ids))))
                        by = max(bx, nids)
                        gyd = pad8(dims)
                        if ax < 8:
                            gyd[ax] = 1
                        lines.append("pick_bw %s %s %d %s" % (rand_t(rng, gyd, by).tok(), x.tok(), ax, " ".join(map(str, ids))))
                try:
                    y = sp_reduce(x, ax, max)
                    lines.append("max_bw %s %s %s %s %d" % (x.tok(), y.tok(), rand_t(rng, y.dims, y.batch).tok(), rand_t(rng, dims, bx).tok(), ax))
                except SpecErr:
                    pass
                for by in (1, 2):
                    d2 = pad8(dims)
                    if ax < 8:
                        d2[ax] = rng.choice([1, 2])
                    lines.append("concat_fw %s %s %d" % (x.tok(), rand_t(rng, d2, by).tok(), ax))
    return lines


def batch_companions(line):
    """For a line of a batch-agnostic kernel whose operands have batch B or 1:
    the B lines obtained by replacing every operand by its b-th sample (ids of
    pick: the b-th id).  Returns (B, [lines]) or None."""
    w = line.split()
    op = w[0]
    if op not in BATCH_AGNOSTIC:
        return None
    toks = [(i, split_tok(t)) for i, t in enumerate(w) if TOK_RE.match(t)]
    if not toks or any(t.loc != "T" for _, t in toks):
        return None
    B = max(t.batch for _, t in toks)
    ns = [t for t in w[1:] if t.isdigit()]
    if op in ("pick_fw", "pick_bw"):
        B = max(B, len(ns) - 1)
    if B < 2 or any(t.batch not in (1, B) for _, t in toks):
        return None
    out = []
    for b in range(B):
        w2 = list(w)
        for i, t in toks:
            vol = prod(t.dims)
            vals = t.vals[b * vol:(b + 1) * vol] if t.batch == B else t.vals
            w2[i] = PT(t.dims, 1, vals).tok()
        if op in ("pick_fw", "pick_bw"):
            ids = ns[1:]
            if len(ids) not in (1, B):
                return None
            first = len(w) - len(ids)
            w2 = w2[:first] + [ids[b] if len(ids) == B else ids[0]]
        out.append(" ".join(w2))
    return B, out


def too_big(line, limit=400):
    """True when executing the line could allocate a large tensor (the model
    driver evaluates tensors element by element, and the harness must not be
    asked for gigabytes): every operand and every result must stay small."""
    w = line.split()
    op = w[0]
    for t in w[1:]:
        if ":" in t:
            p = t.split(":")
            if p[0] in ("T", "O", "S") and "/" in p[1]:
                d, b = p[1].split("/")
                try:
                    dims = [int(v) for v in d.split(",")] if d else []
                    if shape_ok(dims, int(b)) and prod(dims) * int(b) > limit:
                        return True
                except ValueError:
                    return True
    ns = [int(t) for t in w[1:] if t.isdigit()]
    if op == "broadcast_fw" and len(ns) >= 2 and 8 < ns[1] < W:
        return True
    if op == "identity" and ns and 20 < ns[0] < 65536:
        return True
    return False


UNARY_PATTERNS = ["1", "B"]
EXPECTED_PATTERNS = {
    "pick_fw": ["1;ids1", "1;idsB", "B;ids1", "B;idsB"],
    "pick_bw": ["1,1;ids1", "B,1;idsB", "B,B;ids1", "B,B;idsB"],   # (gy, gx); gy has max(batch gx, |ids|) samples
    "slice_bw": ["1,1", "1,B", "B,1", "B,B"],
    "flip_bw": ["1,1", "B,B"],
    "transpose_bw": ["1,1,1,1", "B,B,B,B"], "permute_dims_bw": ["1,1,1,1", "B,B,B,B"],
    "max_bw": ["1,1,1,1", "B,B,B,B"], "min_bw": ["1,1,1,1", "B,B,B,B"],
    "batch_pick_bw": ["1,1", "1,B", "B,1", "B,B"],    # gy has |ids| samples
    "batch_slice_bw": ["1,1", "1,B", "B,B"],
    "concat_fw": ["1,1", "1,B", "B,1", "B,B"],        # first two operands
    "batch_concat_fw": ["1,1", "1,B", "B,1", "B,B"],
}
for _op in FW1 + ["reset", "reset_array", "reset_vector"]:
    EXPECTED_PATTERNS.setdefault(_op, list(UNARY_PATTERNS))


def batch_pattern(line):
    """(kernel, 'B,1,…'): which tensor operands (at most the first four) carry a minibatch"""
    w = line.split()
    pats = []
    for t in w[1:]:
        pt = split_tok(t)
        if pt is not None:
            pats.append("B" if pt.batch > 1 else "1")
    cut = 2 if w[0] in ("concat_fw", "batch_concat_fw") else 4
    pat = ",".join(pats[:cut])
    if w[0] in ("pick_fw", "pick_bw") and pat:
        nids = len([t for t in w[1:] if t.isdigit()]) - 1
        pat += ";ids" + ("1" if nids == 1 else "B")
    return w[0], pat


def pattern_pass(rng, valid, seen):
    """Make every kernel appear with every admissible batch pattern at least once
    among the ACCEPTED lines; returns the coverage matrix kernel -> pattern -> count."""
    matrix = {}

    def note(l):
        op, pat = batch_pattern(l)
        if pat and spec_line("naive " + l).startswith("ok"):
            matrix.setdefault(op, {})
            matrix[op][pat] = matrix[op].get(pat, 0) + 1

    for l in valid:
        note(l)
    missing = []
    for op in sorted(EXPECTED_PATTERNS):
        for pat in EXPECTED_PATTERNS[op]:
            tries = 0
            while matrix.get(op, {}).get(pat, 0) == 0 and tries < 400:
                tries += 1
                l = gen_valid(rng, op)
                if l in seen or too_big(l) or batch_pattern(l)[1] != pat:
                    continue
                if not spec_line("naive " + l).startswith("ok"):
                    continue
                seen.add(l)
                valid.append(l)
                note(l)
            if matrix.get(op, {}).get(pat, 0) == 0:
                missing.append("%s:%s" % (op, pat))
    return matrix, missing


def streams(rng, tier):
    """{'valid': [...], 'malformed': [...], 'exhaustive': [...]} — lines without the device token."""
    quick = tier == "quick"
    per_op = 110 if quick else 500
    valid, seen = [], set()
    for op in ALL_OPS:
        for _ in range(per_op):
            l = gen_valid(rng, op)
            if l not in seen and not too_big(l):
                seen.add(l)
                valid.append(l)
    mal = []
    for _ in range(1500 if quick else 6000):
        l = gen_malformed(rng)
        if l not in seen and not too_big(l):
            seen.add(l)
            mal.append(l)
    # every entry point with an operand on the other device / an invalid operand
    for op in FW1 + BW + MULTI + ["reset", "reset_vector"]:
        for _ in range(6 if quick else 40):
            w = gen_valid(rng, op).split()
            tpos = [i for i, t in enumerate(w) if TOK_RE.match(t)]
            if not tpos:
                continue
            i = rng.choice(tpos)
            w[i] = "O" + w[i][1:] if rng.random() < 0.75 else "I"
            l = " ".join(w)
            if l not in seen and not too_big(l):
                seen.add(l)
                mal.append(l)
    # defect #4 (pinned tree): the 32-bit sums of the two guards
    mal += ["slice_bw T:2/1:1,1 T:4/1:0,0,0,0 0 4294967295",
            "batch_slice_bw T:/2:1,1 T:/4:0,0,0,0 4294967295",
            "slice_bw T:2,2/1:1,1,1,1 T:2,3/1:0,0,0,0,0,0 1 4294967295",
            "slice_bw T:2/1:1,1 T:4/1:0,0,0,0 0 4294967294"]
    ex = [] if quick else [l for l in exhaustive(rng) if l not in seen]
    matrix, missing = pattern_pass(rng, valid, seen)
    return {"valid": valid, "malformed": mal, "exhaustive": ex, "matrix": matrix, "matrix_missing": missing}


# ----------------------------------------------------------------------------
# the check
# ----------------------------------------------------------------------------

RULE = ("operation lines of the kernels family, one Device entry point per line, tensors inline with small integer values "
        "(float32 exact): every kernel (pick/slice/concat/transpose/permute_dims/flip fw+bw, sum, broadcast, max/min fw+bw, argmax/argmin, "
        "batch_pick/batch_slice fw+bw, batch_concat, batch_sum, copy_tensor incl. across devices, identity, new_tensor_by_*, reset_*, to_vector) "
        "x shapes of depth 0..8 with size-1 axes anywhere x axis arguments in {0..depth+1,7,8,9,2^32-1} x batch patterns {1,B} on each operand "
        "x indices at both ends of their range and just outside; a malformed stream (mismatched shapes, wrong ids counts, offsets near 2^32, "
        "tensors of the other device, invalid tensors, shapes the constructor rejects); thorough adds the exhaustive scope depth<=3, dims<=3, "
        "axes 0..4 and 8, batch patterns {1,2}x{1,2}. Every line runs on Naive and on Eigen (canary-filling new_handle subclasses, ASan/UBSan), "
        "on the Lean model and on the Python multi-index specification. Non-trivial = accepted by the implementation; distinct = distinct lines.")


def corpus_lines():
    p = os.path.join(build.VERIF, "corpus", "kernels.ops")
    if not os.path.exists(p):
        return []
    return [l.strip() for l in open(p) if l.strip() and not l.startswith("#")]


def classify(prop, line, impl, expect):
    op = line.split()[1] if len(line.split()) > 1 else "?"
    if impl.startswith("crash"):
        cls = "crash"
    elif "canary@" in impl:
        cls = "uninitialised-output"
    elif impl.startswith("ok") and expect == "err":
        cls = "accepts-inadmissible"
    elif impl == "err" and expect.startswith("ok"):
        cls = "rejects-admissible"
    else:
        cls = "wrong-result"
    return "kernels:%s:%s:%s" % (op, cls, line)


def run_family(chk, prop):
    """prop in C01 C02 C03 C08 C10 C11 ALL"""
    props = ["C01", "C02", "C03", "C08", "C10", "C11"] if prop == "ALL" else [prop]
    mods = []
    for p in props:
        for m in MODS.get(p, []):
            if m not in mods:
                mods.append(m)
    try:
        from translate import device_front
        device_front.generate()
    except Exception as e:   # the obligations over the table then fail and are reported below
        chk.notes.append("translate/device_front.py failed: %r" % (e,))
    chk.obligations(mods, drivers=DRIVERS)
    for p in props:
        for t in STATED_NOT_PROVED.get(p, []):
            if t not in chk.stated_not_proved:
                chk.stated_not_proved.append(t)
    if not chk.rule:
        chk.rule = RULE
    st = streams(chk.rng, chk.tier)
    base_valid = [l for l in corpus_lines()] + st["valid"] + st["exhaustive"]
    base_mal = st["malformed"]
    comp = {}
    if "C03" in props:
        for l in base_valid:
            c = batch_companions(l)
            if c:
                comp[l] = c
    lines, kind = [], {}
    def add(dev, l, k):
        full = dev + " " + l
        if full not in kind:
            kind[full] = k
            lines.append(full)
    for l in base_valid:
        add("naive", l, "valid"); add("eigen", l, "valid")
    for l in base_mal:
        add("naive", l, "malformed"); add("eigen", l, "malformed")
    for l, (B, cl) in comp.items():
        for c in cl:
            add("naive", c, "companion"); add("eigen", c, "companion")
    # a sample on the plain library devices (the real new_handle)
    for l in base_valid[::7]:
        add("naive0", l, "valid"); add("eigen0", l, "valid")
    spec = {}
    def expect(line):
        if line not in spec:
            try:
                spec[line] = spec_line(line)
            except Exception as e:  # an oracle bug must not pass silently
                spec[line] = "oracle-error %r" % (e,)
        return spec[line]
    outs = {}
    def post(ls, impl, model):
        for l, i, m in zip(ls, impl, model):
            outs[l] = (i, m)
        return impl, model
    dis, judged, crashes = chk.correspond(FAMILY, HARNESS, [lines], stateful=False, post=post, timeout=900)
    pending = []   # (group, key, what, line, found, extra): reported below, a few per group, shortest input first

    def rep(key, what, line, found=True, extra=None):
        k = key.split(":")
        pending.append((":".join(k[:3]), key, what, line, found, extra))

    def flush():
        groups = {}
        for item in pending:
            groups.setdefault(item[0], []).append(item)
        chk.extra_cov["kernels_findings_by_class"] = {g: len(v) for g, v in sorted(groups.items())}
        for g in sorted(groups):
            for (_, key, what, line, found, extra) in sorted(groups[g], key=lambda it: (len(it[3]), it[3]))[:3]:
                chk.report(key, what + (" [%d inputs of this class]" % len(groups[g]) if len(groups[g]) > 1 else ""), dict(
                    {"family": FAMILY, "harness": HARNESS, "lines": [line], "observed_impl": outs.get(line, ("", ""))[0],
                     "model": outs.get(line, ("", ""))[1], "expected_spec": expect(line) if line else None}, **(extra or {})),
                    found_input=found)
        del pending[:]
    flagged = set()
    for line in lines:
        impl, model = outs.get(line, ("skipped", ""))
        if impl == "skipped" or (impl == "bad-op" and model == "bad-op"):
            continue   # not a call of the library (both parsers reject the line)
        k = kind[line]
        e = expect(line)
        crash = impl.startswith("crash")
        canary = "canary@" in impl
        if ("C11" in props or "C10" in props) and crash:
            flagged.add(line)
            rep(classify(prop, line, impl, e), "%s: the call crashes (%s); the specification says `%s`" % (line, impl, e[:80]), line)
        if "C11" in props and canary:
            flagged.add(line)
            rep(classify(prop, line, impl, e), "%s: a forward kernel left an element of the raw output tensor unwritten: %s" % (line, impl[:200]), line)
        if "C02" in props and k in ("valid", "companion") and not crash and impl != e:
            flagged.add(line)
            rep(classify(prop, line, impl, e), "%s: implementation returns `%s`, the specification says `%s`" % (line, impl[:200], e[:200]), line)
        if "C01" in props and "C02" not in props and k in ("valid", "companion") and not crash and impl != e \
                and line.split()[1].endswith("_bw"):
            flagged.add(line)
            rep(classify(prop, line, impl, e), "%s: the backward kernel returns `%s`, the transpose of the forward kernel gives `%s`" % (line, impl[:200], e[:200]), line)
        if "C10" in props and k == "malformed" and not crash and impl != e:
            flagged.add(line)
            rep(classify(prop, line, impl, e), "%s: implementation returns `%s`, the specification says `%s`" % (line, impl[:200], e[:200]), line)
    if "C08" in props:
        for line in lines:
            if not line.startswith("naive "):
                continue
            other = "eigen " + line[6:]
            a, b = outs.get(line, ("skipped", ""))[0], outs.get(other, ("skipped", ""))[0]
            if "skipped" in (a, b):
                continue
            if a != b and not (a.startswith("crash") and b.startswith("crash")):
                flagged.add(line)
                rep("kernels:%s:backends-differ:%s" % (line.split()[1], line[6:]),
                    "%s: Naive returns `%s`, Eigen returns `%s`" % (line[6:], a[:200], b[:200]), line, extra={"lines": [line, other]})
    if "C03" in props:
        for l, (B, cl) in comp.items():
            for dev in ("naive", "eigen"):
                full = outs.get(dev + " " + l, ("skipped", ""))[0]
                parts = [outs.get(dev + " " + c, ("skipped", ""))[0] for c in cl]
                w = batch_law_violation(l, B, full, parts)
                if w:
                    flagged.add(dev + " " + l)
                    rep("kernels:%s:batch-law:%s" % (l.split()[0], l), "%s %s: %s" % (dev, l, w), dev + " " + l,
                        extra={"lines": [dev + " " + l] + [dev + " " + c for c in cl]})
        chk.extra_cov["batch_law_cases"] = len(comp)
    # model != implementation where no property violation was seen on that line
    for d in dis:
        if d["line"] in flagged:
            continue
        rep("correspondence:kernels:" + d["line"].split()[1],
            "model and implementation disagree on `%s` (impl `%s`, model `%s`); the Lean model no longer describes the code"
            % (d["line"], d["impl"][:200], d["model"][:200]), d["line"], found=False, extra={"broken": "correspondence kernels/h_kernels"})
    for r in crashes:
        if r.get("at_exit"):
            chk.report("kernels:at-exit:" + r["kind"], "the harness process failed at exit: %s" % r["kind"],
                       {"family": FAMILY, "harness": HARNESS, "lines": lines[:5], "stderr": r.get("stderr", "")[-1500:]}, found_input=True)
    flush()
    broken = chk.broken_obligations()
    if broken and not chk.violations:
        for name, why in broken.items():
            chk.report("obligation:" + name, "theorem %s no longer checks: %s" % (name, why),
                       {"theorem": name, "reason": why, "log": (chk.oblig or {}).get("log_tail", "")[-1500:]}, found_input=False)
    chk.extra_cov["kernels_batch_pattern_matrix"] = st.get("matrix", {})
    if st.get("matrix_missing"):
        chk.notes.append("kernel x batch patterns not reached by the generator in this run: " + ", ".join(st["matrix_missing"]))
    chk.extra_cov["kernels_lines"] = {"valid": len(base_valid), "malformed": len(base_mal), "exhaustive": len(st["exhaustive"]),
                                       "companions": sum(len(c[1]) for c in comp.values())}
    t = "modelled, not verified: the kernels of Device (Model/KernelsMove.lean) are hand-modelled in Lean and tied to both CPU backends by the correspondence run of this check; values are integers (float32 rounding, NaN and signed zeros are outside the theorems)"
    if t not in chk.trusted:
        chk.trusted.append(t)
    a = "element type: the theorems are over an arbitrary type with the operations used (additive commutative monoid / commutative ring / linear order); the executions use integers exactly representable in float32"
    if a not in chk.assumptions:
        chk.assumptions.append(a)


def parse_out(o):
    m = re.match(r"^ok T:([0-9,]*)/(\d+):([-0-9,]*)$", o)
    if m:
        dims = [int(v) for v in m.group(1).split(",")] if m.group(1) else []
        vals = [int(v) for v in m.group(3).split(",")] if m.group(3) else []
        return ("T", dims, int(m.group(2)), vals)
    m = re.match(r"^ok ids:([0-9,]*)$", o)
    if m:
        return ("ids", [int(v) for v in m.group(1).split(",")] if m.group(1) else [])
    return None


def batch_law_violation(line, B, full, parts):
    """None, or a description of how `kernel(batch)` differs from the per-sample runs."""
    if "skipped" in [full] + parts:
        return None
    if full.startswith("crash") or any(p.startswith("crash") for p in parts):
        return None  # reported by C10/C11
    if full == "err" or not full.startswith("ok"):
        if all(p.startswith("ok") for p in parts):
            return "the batched call is rejected (`%s`) although every per-sample call is accepted" % full
        return None
    if not all(p.startswith("ok") for p in parts):
        return "the batched call is accepted but a per-sample call is rejected: %s" % parts
    f = parse_out(full)
    ps = [parse_out(p) for p in parts]
    if f is None or any(p is None for p in ps):
        return None
    op = line.split()[0]
    if f[0] == "ids":
        cat = [v for p in ps for v in p[1]]
        return None if cat == f[1] else "argmax/argmin of the batch %s is not the concatenation of the per-sample results %s" % (f[1], cat)
    _, dims, batch, vals = f
    if op.endswith("_bw"):
        # gx is the last tensor operand
        toks = [split_tok(t) for t in line.split() if TOK_RE.match(t)]
        gx = toks[-1]
        if gx.batch == 1:
            # gradient reaching a batch-1 operand = sum over the samples
            want = [g + sum(p[3][i] - g for p in ps) for i, g in enumerate(gx.vals)]
            return None if want == vals else "gradient reaching the batch-1 operand is %s, the sum over samples of the per-sample gradients is %s" % (vals, want)
        cat = [v for p in ps for v in p[3]]
        return None if cat == vals else "gx of the batched call %s is not the concatenation of the per-sample results %s" % (vals, cat)
    if batch == 1:
        # result without batch although an operand has one cannot happen for these kernels
        return "the result of the batched call has batch 1"
    if any(p[1] != dims for p in ps):
        return "per-sample result dims %s differ from the batched result dims %s" % ([p[1] for p in ps], dims)
    cat = [v for p in ps for v in p[3]]
    return None if cat == vals else "sample-wise results %s differ from the batched result %s" % (cat, vals)
