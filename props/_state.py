"""Rejected calls on Parameter / Optimizer leave every object unchanged
(state-snapshot oracle on the implementation alone, harness h_state)."""
from vlib import run as vrun, build, check as vcheck

KINDS = ["sgd", "momentum", "adagrad", "rmsprop", "adadelta", "adam"]
KEYS = {"sgd": ["SGD.eta"], "momentum": ["MomentumSGD.eta", "MomentumSGD.momentum"], "adagrad": ["AdaGrad.eta", "AdaGrad.eps"],
        "rmsprop": ["RMSProp.eta", "RMSProp.alpha", "RMSProp.eps"], "adadelta": ["AdaDelta.rho", "AdaDelta.eps"],
        "adam": ["Adam.alpha", "Adam.beta1", "Adam.beta2", "Adam.eps"]}


def ints(rng, n):
    return ",".join(str(rng.randint(-3, 3)) for _ in range(n)) or "-"


def history(rng, maxlen=40):
    lines = []
    shapes = {}
    nparams = rng.choice([1, 2, 3])
    for p in range(nparams):
        if rng.random() < 0.15:
            lines.append("pnone %d" % p); shapes[p] = None
        else:
            d = [rng.choice([1, 2, 3]) for _ in range(rng.choice([0, 1, 2, 2]))]
            n = 1
            for x in d:
                n *= x
            shapes[p] = d
            lines.append("param %d %s %s" % (p, ",".join(map(str, d)), ints(rng, n)))
    nopts = rng.choice([1, 2])
    kinds = {}
    for o in range(nopts):
        kinds[o] = rng.choice(KINDS)
        lines.append("opt %d %s" % (o, kinds[o]))
    for _ in range(rng.randint(8, maxlen)):
        p = rng.randrange(nparams)
        o = rng.randrange(nopts)
        d = shapes[p] or []
        n = 1
        for x in d:
            n *= x
        r = rng.random()
        if r < 0.15:
            lines.append("add %d %d" % (o, p))
        elif r < 0.27:
            if shapes[p] is not None:
                lines.append("grad %d %s" % (p, ints(rng, n)))
            lines.append("update %d" % o)
        elif r < 0.37:
            lines.append("stats %d %s %s" % (p, rng.choice(["a", "b", "MomentumSGD.m", "Adam.m1"]), ",".join(map(str, d)) if rng.random() < 0.8 else "2,2"))
        elif r < 0.55:
            # init: valid, wrong number of values, batched shape, zero dimension
            nd = [rng.choice([1, 2, 3]) for _ in range(rng.choice([0, 1, 2]))]
            nn = 1
            for x in nd:
                nn *= x
            k = rng.random()
            if k < 0.35:
                lines.append("init %d %s/1 %s" % (p, ",".join(map(str, nd)), ints(rng, nn)))
            elif k < 0.6:
                lines.append("init %d %s/1 %s" % (p, ",".join(map(str, nd)), ints(rng, nn + rng.choice([1, 2, -1]) if nn + 1 > 0 else 1)))
            elif k < 0.8:
                lines.append("init %d %s/2 %s" % (p, ",".join(map(str, nd)), ints(rng, 2 * nn)))
            elif k < 0.86:
                lines.append("initc %d %s/%d %d" % (p, ",".join(map(str, nd)), rng.choice([1, 1, 2, 3]), rng.randint(-2, 2)))
            elif k < 0.96:
                # an Initializer that rejects the shape itself, after Parameter::init has built the new tensors
                # (Identity: non-square; Xavier: depth 3; Conv2D: depth 5) — or accepts it (square / matrix / depth 4)
                which = rng.choice(["initi", "initi", "initx", "initn", "initv"])
                sh = {"initi": ["2,3", "3,1", "2", "2,2,2", "2,2", "3,3"], "initx": ["2,2,2", "1,2,3", "2,3", "3"],
                      "initn": ["2,2,2", "2,1,2", "2,3"], "initv": ["1,1,1,1,2", "2,1,1,1,2", "1,2,1,2"]}[which]
                lines.append("%s %d %s/1" % (which, p, rng.choice(sh)))
            else:
                lines.append("init %d 2,0/1 -" % p)
        elif r < 0.65:
            lines.append("load %d %s" % (p, rng.choice(["missing", "garbage", "truncated"])))
        elif r < 0.8:
            lines.append("set %d %s %s" % (o, rng.choice(["lr_scale", "decay", "clip"]), rng.choice(["-1", "-0.5", "0", "0.5", "2", "-1e-30"])))
        elif r < 0.9:
            key = rng.choice(KEYS[kinds[o]] + ["No.such.key", "Optimizer.lr_scale", "Optimizer.l2_strength", "Optimizer.clip_threshold"])
            lines.append("setcfg %d %s %s" % (o, key, rng.choice(["-1", "0.5", "0", "1"])))
        else:
            if shapes[p] is not None:
                lines.append("grad %d %s" % (p, ints(rng, n + rng.choice([0, 0, 1]))))
    # every optimizer must still be able to update after whatever was rejected
    for o in range(nopts):
        lines.append("update %d" % o)
    return lines


def run_state(chk):
    exe = build.build_harness("h_state")
    n = 150 if chk.tier == "quick" else 4000
    for i in range(n):
        lines = history(chk.rng)
        dev = "naive" if i % 4 else "eigen"
        outs, reports = vrun.run_impl(exe, lines, stateful=True, args=[dev], timeout=120)
        chk.traces += 1
        for l, o in zip(lines, outs):
            chk.count(l, o, o.startswith(("err", "exc")))
            bad = None
            if o.startswith("err CHANGED") or o.startswith("exc CHANGED"):
                bad = ("state-changed-by-rejected-call", "a rejected `%s` changed the state of an object: %s" % (l, o[:600]))
            elif o.startswith("crash"):
                bad = ("crash", "`%s` crashes (%s)" % (l, o))
            if bad:
                idx = lines.index(l)
                def still(ls, kind=bad[0]):
                    oo, _ = vrun.run_impl(exe, ls, stateful=True, args=[dev], timeout=60)
                    return any((kind == "state-changed-by-rejected-call" and x[4:].startswith("CHANGED")) or
                               (kind == "crash" and x.startswith("crash")) for x in oo)
                small = vcheck.shrink(lines[: idx + 1], still, max_runs=40)
                chk.report("state:%s:%s" % (bad[0], l.split()[0]), bad[1],
                           {"family": "state", "harness": "h_state", "harness_args": [dev], "stateful": True, "lines": small,
                            "model_family": None, "observed": o[:1500]})
                break
    if len(chk.samples) < 8:
        chk.samples.append({"family": "state", "history": lines[:20]})


def run_length_wrap(chk):
    """Crafted parameter files whose shape has >= 2^30 elements and a tiny payload: the
    load must be rejected by the length cross-check (no allocation, no out-of-bounds
    copy).  Run with an allocation limit above 4 GiB so that a wrapped length check is
    observed as the out-of-bounds read it causes, not masked by a failing allocation."""
    import struct
    from props import C13 as base
    exe = build.build_harness("h_state")
    H = base.file_header
    lines = ["param 0 2 1,2"]
    cases = []
    for dims, payload in (([2 ** 30 + 1], b"\0" * 4), ([2 ** 30], b""), ([2 ** 31], b""), ([2 ** 31 + 2], b"\0" * 8),
                          ([65536, 16384], b""), ([65536, 16385], b"\0" * 16)):
        data = H(0x200) + base.enc_shape(dims, 1) + base.mp_bin(payload) + base.mp_u32(0)
        cases.append(data)
        # the same tensor as a statistics record
        good = base.enc_tensor([2], 1, [0x3f800000, 0x40000000])
        cases.append(H(0x200) + good + base.mp_u32(1) + base.mp_str(b"m") + base.enc_shape(dims, 1) + base.mp_bin(payload))
    for data in cases:
        lines.append("loadhex 0 " + data.hex())
    env = {"ASAN_OPTIONS": vrun.ASAN_ENV["ASAN_OPTIONS"].replace("max_allocation_size_mb=3000", "max_allocation_size_mb=9000")}
    outs, reports = vrun.run_impl(exe, lines, stateful=False, args=["naive"], timeout=300, env=env)
    chk.traces += 1
    for l, o in zip(lines, outs):
        chk.count(l[:80], o, o.startswith("err"))
        if l.startswith("loadhex") and o != "err unchanged":
            chk.report("state:length-wrap:%s" % ("crash" if o.startswith("crash") else "accepted-or-changed"),
                       "a parameter file whose shape needs >= 4 GiB with a payload of a few bytes was not rejected cleanly: `%s...` -> %s" % (l[:60], o[:300]),
                       {"family": "state", "harness": "h_state", "harness_args": ["naive"], "stateful": True, "lines": [lines[0], l],
                        "model_family": None, "observed": o[:600], "env": env})


def run_param_batch(chk):
    """A Parameter never carries a minibatch (the gradient reaching it is the sum over the
    samples): every way of giving it one — init with a batched shape (values or Initializer),
    a parameter file whose value tensor is batched — is rejected and leaves the Parameter as it
    was: its announced shape, its value, gradient and statistics."""
    from props import C13 as base
    exe = build.build_harness("h_state")
    rng = chk.rng
    for dev in ("naive", "eigen"):
        lines, expect_rejected = [], set()
        for p in range(4):
            d = [rng.choice([1, 2, 3]) for _ in range(rng.choice([1, 1, 2]))]
            n = 1
            for x in d:
                n *= x
            lines.append("param %d %s %s" % (p, ",".join(map(str, d)), ints(rng, n)))
            lines.append("stats %d m %s" % (p, ",".join(map(str, d))))
            for _ in range(4):
                nd = [rng.choice([1, 2, 3]) for _ in range(rng.choice([1, 1, 2]))] if rng.random() < 0.6 else d
                nn = 1
                for x in nd:
                    nn *= x
                B = rng.choice([2, 3, 4])
                k = rng.random()
                if k < 0.4:
                    lines.append("init %d %s/%d %s" % (p, ",".join(map(str, nd)), B, ints(rng, nn * B)))
                elif k < 0.7:
                    lines.append("initc %d %s/%d %d" % (p, ",".join(map(str, nd)), B, rng.randint(-2, 2)))
                else:
                    bits = [0x3f800000 + 0x100000 * i for i in range(nn * B)]
                    data = base.file_header(0x200) + base.enc_tensor(nd, B, bits) + base.mp_u32(0)
                    lines.append("loadhex %d %s" % (p, data.hex()))
                expect_rejected.add(len(lines) - 1)
            # and the same calls with batch 1 are accepted (the harness is not rejecting everything)
            nd = [rng.choice([1, 2, 3]) for _ in range(rng.choice([1, 1, 2]))]
            nn = 1
            for x in nd:
                nn *= x
            bits = [0x3f800000 + 0x100000 * i for i in range(nn)]
            lines.append("loadhex %d %s" % (p, (base.file_header(0x200) + base.enc_tensor(nd, 1, bits) + base.mp_u32(0)).hex()))
            lines.append("init %d %s/1 %s" % (p, ",".join(map(str, nd)), ints(rng, nn)))
        outs, reports = vrun.run_impl(exe, lines, stateful=True, args=[dev], timeout=120)
        chk.traces += 1
        for i, (l, o) in enumerate(zip(lines, outs)):
            chk.count(l[:100], o, o.startswith("err"))
            bad = None
            if o.startswith("crash"):
                bad = ("crash", "crashes (%s)" % o)
            elif i in expect_rejected and o == "ok":
                bad = ("batched-parameter-accepted", "is accepted: the Parameter now carries a minibatch")
            elif i in expect_rejected and o != "err unchanged":
                bad = ("state-changed-by-rejected-call", "is rejected but changed the Parameter: %s" % o[:500])
            elif i not in expect_rejected and o != "ok":
                bad = ("batch-1-call-rejected", "(minibatch size 1) answers `%s`" % o[:200])
            if bad:
                chk.report("state:param-batch:%s:%s" % (bad[0], l.split()[0]), "device %s: `%s` %s" % (dev, l[:160], bad[1]),
                           {"family": "state", "harness": "h_state", "harness_args": [dev], "stateful": True, "lines": lines[: i + 1],
                            "model_family": None, "observed": o[:1500]})
                break


def run_alloc_refused(chk):
    """The same request that the allocator refuses (4 GiB and 8 GiB tensors under an allocation
    limit of 3000 MB) on devices::Naive and devices::Eigen: both must raise primitiv::Error, leave
    the Parameter unchanged and stay usable — same arguments accepted, same failure reported."""
    exe = build.build_harness("h_state")
    lines = ["param 0 2 1,2", "initc 0 65536,16384/1 1", "init 0 2/1 3,4", "initc 0 65536,32768/1 0", "initc 0 3/1 2", "opt 0 momentum", "add 0 0", "update 0"]
    want = ["ok", "err unchanged", "ok", "err unchanged", "ok", "ok", "ok", "ok"]
    answers = {}
    for dev in ("naive", "eigen"):
        outs, reports = vrun.run_impl(exe, lines, stateful=True, args=[dev], timeout=120)
        chk.traces += 1
        answers[dev] = outs
        for i, (l, o) in enumerate(zip(lines, outs)):
            chk.count(dev + " " + l, o, o.startswith("err"))
            if o != want[i]:
                kind = "crash" if o.startswith("crash") else "answer"
                chk.report("state:alloc-refused:%s:%s" % (dev, kind),
                           "device %s: `%s` answers `%s` where `%s` is expected (a tensor the allocator refuses must be reported as primitiv::Error on "
                           "every backend, with the Parameter unchanged)" % (dev, l, o[:300], want[i]),
                           {"family": "state", "harness": "h_state", "harness_args": [dev], "stateful": True, "lines": lines[: i + 1],
                            "model_family": None, "observed": o[:1500], "other_backend": answers.get("naive", [None] * len(lines))[i]})
                break
