"""Shared by C12 and C15 (family `optim`): number formats of the line protocol,
tolerant comparison of result lines, the per-stream post-processing that runs
the specification engine and records verdicts, history generators."""
import math, os, struct
from fractions import Fraction
from vlib import run as vrun, build

STAT_NAMES_ALL = None  # filled from the translator's table


def f32(x):
    """round a python float to float32"""
    return struct.unpack("<f", struct.pack("<f", x))[0]


def f2x(x):
    return "x%08x" % struct.unpack("<I", struct.pack("<f", x))[0]


def x2f(t):
    return struct.unpack("<f", struct.pack("<I", int(t[1:], 16)))[0]


def xs(vals):
    return ",".join(f2x(v) for v in vals) if vals else "-"


def parse_num(t):
    """-> ('u', int) | ('x', float) | ('q', Fraction) | None"""
    try:
        if t.startswith("u"):
            return ("u", int(t[1:]))
        if t.startswith("x") and len(t) == 9:
            return ("x", x2f(t))
        if t.startswith("q"):
            n, d = t[1:].split("/")
            return ("q", Fraction(int(n), int(d)))
    except (ValueError, struct.error):
        return None
    return None


def representable(q):
    """is the rational exactly a float32?"""
    try:
        f = float(q)
        g = f32(f)
    except OverflowError:
        return False
    return not math.isinf(g) and Fraction(g) == q


class Tol:
    def __init__(self, rel, floor):
        self.rel, self.floor = rel, floor

    def close(self, a, b, growth=1.0, scale=0.0):
        if a == b or (math.isnan(a) and math.isnan(b)):
            return True
        if math.isnan(a) or math.isnan(b) or math.isinf(a) or math.isinf(b):
            return False
        return abs(a - b) <= growth * self.rel * max(abs(a), abs(b), scale)


# |a-b| <= rel * max(|a|, |b|, S) where S is the largest magnitude the same quantity (values, gradients,
# one named statistic, one configuration key) has had so far in the history: relative to the scale of
# the quantity, so that small statistics (m ~ 1e-12 for tiny gradients) are compared as sharply as
# O(1) values, and a value passing through zero is compared at the scale of its history.
# Differences come from the summation order of the clipping norm and, for the specification, from the
# different association of the textbook formulas, and accumulate over a history.
TOL_MODEL = Tol(2.0 ** -18, 0.0)   # implementation vs model (float32 emulation)
TOL_SPEC = Tol(2.0 ** -11, 0.0)    # implementation vs textbook equations evaluated in float32


def _mag(t):
    """magnitude of a number token for the running scale (0 for non-finite / non-float)"""
    c = t[:1]
    try:
        if c == "x" and len(t) == 9:
            f = abs(struct.unpack("<f", struct.pack("<I", int(t[1:], 16)))[0])
            return f if f < 3e38 else 0.0
        if c == "q":
            n, d = t[1:].split("/")
            return abs(int(n) / int(d))
    except (ValueError, struct.error, ZeroDivisionError, OverflowError):
        pass
    return 0.0


class StreamCmp:
    """Comparison of implementation output with a Lean engine's output along
    one history.  In exact mode (`q` tokens) equality is exact as long as every
    rational the engine printed so far is a float32; after the first one that
    is not (the implementation had to round) the rest of the history is
    compared within tolerance."""

    def __init__(self, tol):
        self.tol = tol
        self.rounded = False
        self.updates = 0
        self.eigen = False
        self.drifted = False
        self.illcond = False
        self.scale = {}
        self.cur = 0.0
        self.exact_values = 0
        self.exact_misses = 0
        self.max_dev = 0.0

    def reset(self):
        self.rounded = False
        self.updates = 0
        self.eigen = False
        self.drifted = False
        self.illcond = False
        self.scale = {}
        self.cur = 0.0

    def observe(self, words):
        """update the running scale of every `key=numbers` token"""
        sc = self.scale
        for w in words:
            i = w.find("=")
            if i > 0:
                k = w[:i]
                m = sc.get(k, 0.0)
                for t in w[i + 1:].split(","):
                    v = _mag(t)
                    if v > m:
                        m = v
                    # a gradient element that has almost cancelled (non-zero, below 2^-12 of what gradients have been in
                    # this history): the adaptive rules divide by sqrt(statistic) ~ |g| next, which amplifies a last-bit
                    # difference of g without bound — from here on the history is compared loosely (see growth())
                    if k == "g" and 0.0 < v < m * 2.0 ** -12:
                        self.illcond = True
                sc[k] = m

    def growth(self):
        """rounding differences accumulate along a history: the tolerance grows linearly with the
        number of update() calls made so far (factor 1 + updates/32)"""
        # the Eigen backend is not emulated bit for bit (its vectorised kernels differ from the scalar
        # float32 emulation in the last bit now and then; ill-conditioned settings such as beta2 = 0
        # amplify that): histories on devices::Eigen are compared 2^7 times more loosely
        # The same once model and implementation have differed in the last bits anywhere in the history
        # (summation order of the clipping norm over the unordered_set): an ill-conditioned step (a
        # gradient that cancels to ~0 against the weight decay, then Adam's division by sqrt(m2) ~ |g|)
        # amplifies such a difference without bound.  The sharp 2^-18 therefore applies to the first
        # divergence from a bit-identical history.
        loose = (self.eigen or self.drifted) and self.tol.rel < 2.0 ** -12
        # The comparison with the SPECIFICATION (textbook equations, tolerance 2^-11) is loosened 2^5 times on Eigen
        # histories for the same reason: found by a thorough run (seed 5) on the unchanged tree — RMSProp with alpha = 0,
        # a gradient of 4e-7 left by weight decay after the real gradient became 0, eps = 1e-6: the step
        # lr * g / (|g| + eps) turns a last-bit difference of g into 0.2 % of the value.  Naive histories (the
        # implementation is bit-identical to the float32 emulation there) keep the sharp bound.
        if self.illcond and (self.eigen or self.drifted):
            return (1.0 + self.updates / 32.0) * 2.0 ** 16
        if self.eigen and self.tol.rel >= 2.0 ** -12:
            return (1.0 + self.updates / 32.0) * 32.0
        return (1.0 + self.updates / 32.0) * (128.0 if loose else 1.0)

    def note(self, line):
        if line.startswith("update "):
            self.updates += 1
        elif line == "device eigen":
            self.eigen = True

    def num(self, a, b):
        pa, pb = parse_num(a), parse_num(b)
        if pa is None or pb is None:
            return a == b
        if pa[0] == "u" or pb[0] == "u":
            return pa == pb
        if pb[0] == "q":
            if pa[0] != "x":
                return False
            if math.isnan(pa[1]) or math.isinf(pa[1]):
                return False
            if not self.rounded and representable(pb[1]):
                if Fraction(pa[1]) == pb[1]:
                    self.exact_values += 1
                    return True
                # an intermediate result that is not printed was rounded by the implementation
                self.exact_misses += 1
            self.rounded = True
            return self.tol.close(pa[1], float(pb[1]), self.growth(), self.cur)
        if pa[0] == "x" and pb[0] == "x":
            if a == b:
                return True
            ok = self.tol.close(pa[1], pb[1], self.growth(), self.cur)
            if ok:
                self.drifted = True
            if ok and not (math.isnan(pa[1]) or math.isnan(pb[1])):
                d = abs(pa[1] - pb[1]) / max(abs(pa[1]), abs(pb[1]), self.cur, 1e-30)
                self.max_dev = max(self.max_dev, d)
            return ok
        return False

    def line(self, impl, other):
        wi = impl.split(" ")
        self.observe(wi)
        if impl == other:
            return True
        wo = other.split(" ")
        self.observe(wo)
        if not self.rounded and "q" in other:
            # a rational of this line that is not a float32: the implementation rounded somewhere in this step
            for b in wo:
                if "=" in b:
                    for t in b.split("=", 1)[1].split(","):
                        pb = parse_num(t)
                        if pb is not None and pb[0] == "q" and not representable(pb[1]):
                            self.rounded = True
        if len(wi) != len(wo):
            return False
        # the one-line `resume` experiment carries no history: a statistic that has cancelled to far below the quantities it
        # was computed from (momentum m ~ 1e-5 from gradients ~ 1 after 12 steps) would be compared at its own magnitude,
        # sharper than float32 rounding of its operands allows (found by a thorough run, seed 5, on the unchanged tree).
        # On such a line every quantity is compared at the scale of the largest magnitude on the line.
        floor = 0.0
        if wi[:2] == ["ok", "same"]:
            for w in wi:
                if "=" in w:
                    for t in w.split("=", 1)[1].split(","):
                        floor = max(floor, _mag(t))
            # (a statistic computed from O(1) operands over k + n steps carries their absolute rounding error, k + n times
            #  2^-24: the whole line is compared at the scale of its largest magnitude)
        for a, b in zip(wi, wo):
            if a == b:
                continue
            if "=" in a and "=" in b:
                ka, va = a.split("=", 1)
                kb, vb = b.split("=", 1)
                if ka != kb:
                    return False
                la, lb = va.split(","), vb.split(",")
                if len(la) != len(lb):
                    return False
                self.cur = max(self.scale.get(ka, 0.0), floor)
                if not all(self.num(x, y) for x, y in zip(la, lb)):
                    return False
            else:
                return False
        return True


TAG = " \t#"


def untag(s):
    i = s.find(TAG)
    return (s, None) if i < 0 else (s[:i], s[i + len(TAG):])


class Runner:
    """Wraps chk.correspond for the optim family: tolerant comparison with the
    model engine and an independent verdict from the specification engine."""

    def __init__(self, chk, judge_line=None, use_spec=True):
        self.chk = chk
        self.use_spec = use_spec
        self.verdicts = {}
        self.spec_out = {}
        self.sid = 0
        self.judge_line = judge_line
        self.model_cmp = StreamCmp(TOL_MODEL)
        self.spec_cmp = StreamCmp(TOL_SPEC)
        self.spec_lines = 0
        self.streams_out = []
        self.dis = []
        self.exact_histories = 0

    def spec_run(self, lines):
        out = vrun.run_model("optim", ["engine spec"] + lines)
        return out[1:]

    def post(self, lines, impl, model):
        self.sid += 1
        sid = self.sid
        spec = self.spec_run(lines) if self.use_spec else list(impl)
        self.streams_out.append((lines, list(impl)))
        impl2, model2 = [], []
        failed = False     # a verdict was given in the current history: what follows is a consequence
        diverged = False   # model and implementation already disagreed in the current history
        for i, line in enumerate(lines):
            if line.startswith("mode "):
                self.model_cmp.reset(); self.spec_cmp.reset()
                failed = False
                diverged = False
            im, mo, sp = impl[i], model[i], spec[i]
            self.model_cmp.note(line); self.spec_cmp.note(line)
            if im == "skipped":
                impl2.append(im); model2.append(mo); continue
            # verdict against the specification (independent of the model)
            w = None
            if im.startswith("crash"):
                w = "the call crashes (%s)" % im
            elif not self.spec_cmp.line(im, sp):
                w = "implementation `%s`, specification `%s`" % (im[:300], sp[:300])
            if w is None and self.judge_line:
                w = self.judge_line(line, im)
            if failed:
                impl2.append(im + " \t#0:0"); model2.append(im + " \t#0:0")
                continue
            if w:
                failed = True
            self.spec_lines += 1
            tag = "%s%d:%d" % (TAG, sid, i)
            if w:
                self.verdicts[(sid, i)] = w
            self.spec_out[(sid, i)] = sp
            ok = self.model_cmp.line(im, mo) or (mo == "crash" and im.startswith("crash"))
            # the generic runner stops a stateful stream at the first model/implementation disagreement,
            # before judging the line; here every line must reach the judge (a verdict later in the history
            # is the failing input that is looked for), so disagreements are collected here instead: the
            # first one of each history
            if not ok and not w and not diverged:
                diverged = True
                self.dis.append({"family": "optim", "harness": "h_optim", "variant": "asan", "stateful": True,
                                 "lines": lines[: i + 1], "index": i, "line": line, "impl": im, "model": mo,
                                 "harness_args": None, "spec": sp})
            impl2.append(im + tag)
            model2.append(im + tag)
        return impl2, model2

    def judge(self, line, impl, model):
        s, tag = untag(impl)
        if tag is None:
            return None
        sid, i = tag.split(":")
        return self.verdicts.get((int(sid), int(i)))

    def correspond(self, streams, **kw):
        dis, judged, crashes = self.chk.correspond("optim", "h_optim", streams, stateful=True, judge=self.judge,
                                                   post=self.post, **kw)
        for rec in dis + judged:
            t = untag(rec["impl"])[1]
            rec["tag"] = tuple(map(int, t.split(":"))) if t else None
            rec["spec"] = self.spec_out.get(rec["tag"], "")
            rec["impl"] = untag(rec["impl"])[0]
            rec["model"] = untag(rec["model"])[0]
        # evidence samples carry the tag: strip it
        for smp in self.chk.samples:
            if "impl" in smp:
                smp["impl"] = untag(smp["impl"])[0]
                smp["model"] = untag(smp["model"])[0]
        return self.dis, judged, crashes


_EXE = None


def fails_on_impl(lines, use_spec=True, judge_line=None):
    """Re-run lines on the implementation (and the specification engine); the
    first violating line: (index, implementation output, expected) or None
    (used for shrinking)."""
    global _EXE
    if _EXE is None:
        _EXE = build.build_harness("h_optim")
    impl, reports = vrun.run_impl(_EXE, lines, stateful=True)
    spec = vrun.run_model("optim", ["engine spec"] + lines)[1:] if use_spec else list(impl)
    c = StreamCmp(TOL_SPEC)
    for i, line in enumerate(lines):
        if line.startswith("mode "):
            c.reset()
        c.note(line)
        if impl[i] == "skipped":
            break
        if impl[i].startswith("crash") or not c.line(impl[i], spec[i]):
            return i, impl[i], spec[i]
        if judge_line:
            w = judge_line(line, impl[i])
            if w:
                return i, impl[i], w
    return None


def obligations_with_gen(chk, mods, generate, out_path):
    """Regenerate Gen/… and build; checks of other working trees running at the
    same time may rewrite the generated file between the two steps, so verify
    that what was built is what was generated and retry otherwise."""
    res = None
    for attempt in range(4):
        txt = generate()
        chk.oblig = None
        res = chk.obligations(mods, drivers=["optim"])
        try:
            if open(out_path).read() == txt:
                break
        except OSError:
            pass
    return res


def report_broken(chk):
    """Obligations that no longer check and no failing input was found: one
    report per distinct reason."""
    broken = chk.broken_obligations()
    if not broken or chk.violations:
        return
    by = {}
    for name, why in broken.items():
        by.setdefault(why, []).append(name)
    for why, names in sorted(by.items()):
        names = sorted(names)
        chk.report("obligation:" + ",".join(names)[:300],
                   "theorem%s %s no longer check%s: %s" % ("s" if len(names) > 1 else "", ", ".join(names), "" if len(names) > 1 else "s", why),
                   {"theorems": names, "reason": why, "log": (chk.oblig or {}).get("log_tail", "")[-1500:]}, found_input=False)
