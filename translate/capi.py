"""Translator of the C API (property C20).

Runs `g++ -E` on every primitiv/c/**/*.cc of the tree under study (so that the
wrapper-generating macros are expanded), keeps the text that originates from
files under primitiv/c/ (line markers), and parses

  * every `PRIMITIV_C_STATUS primitiv...(params) try { ... } catch ...`
    definition into one row of a data table (parameters, the ordered list of
    uses of every parameter in the body, shape of the try block / handler,
    the forwarded C++ call text),
  * every `extern "C"` declaration of the headers (declared <-> defined),
  * the members of `ErrorHandler` and the three size-query helpers of
    internal.h into small records of facts.

Whatever is outside the subset becomes an `unsupported "<text>"` entry of the
row (never guessed), so that `CApi.no_unsupported` fails.

Outputs: lean/PrimitivModel/Gen/CApi.lean (table for the theorems and the
driver) and a generated C++ dispatch include for harness/h_capi.cc under
/verif/.cache/gen/capi-<hash>/capi_dispatch.inc.

Pure Python 3 stdlib. Honours VERIF_REPO.
"""
import glob, hashlib, json, os, re, subprocess, sys
from concurrent.futures import ThreadPoolExecutor

VERIF = os.path.dirname(os.path.dirname(os.path.abspath(__file__)))
LEAN_OUT = os.path.join(VERIF, "lean", "PrimitivModel", "Gen", "CApi.lean")
GOLDEN = os.path.join(VERIF, "translate", "golden", "CApi.lean")


def repo():
    return os.environ.get("VERIF_REPO", "/repo")


# --------------------------------------------------------------------------
# preprocessing

def c_sources(root):
    pats = ["primitiv/c/*.cc", "primitiv/c/internal/*.cc", "primitiv/c/devices/naive/*.cc",
            "primitiv/c/devices/eigen/*.cc"]
    out = []
    for p in pats:
        out += sorted(glob.glob(os.path.join(root, p)))
    return out


def config_dir():
    sys.path.insert(0, VERIF)
    from vlib import build
    return build.config_dir("asan")


def preprocess(src, root, cfg):
    cmd = [os.environ.get("VERIF_CXX", "g++"), "-E", "-std=c++11", "-DPRIMITIV_VERIF", "-w",
           "-I" + cfg, "-I" + root, "-I/usr/include/eigen3", src]
    r = subprocess.run(cmd, capture_output=True, text=True)
    if r.returncode != 0:
        raise RuntimeError("g++ -E failed on %s:\n%s" % (src, r.stderr[-2000:]))
    return r.stdout


LINEMARK = re.compile(r'^#\s+(\d+)\s+"([^"]*)"')


def own_text(pp, root):
    """[(relative file, line, text line)] of the preprocessed lines that come
    from files under <root>/primitiv/c/."""
    out = []
    cur, ln = None, 0
    prefix = os.path.join(os.path.realpath(root), "primitiv", "c") + os.sep
    for line in pp.split("\n"):
        m = LINEMARK.match(line)
        if m:
            ln = int(m.group(1))
            f = m.group(2)
            rp = os.path.realpath(f) if f.startswith("/") else f
            cur = os.path.relpath(rp, os.path.realpath(root)) if rp.startswith(prefix) else None
            continue
        if line.startswith("#"):
            continue
        if cur is not None and line.strip():
            out.append((cur, ln, line))
        ln += 1
    return out


# --------------------------------------------------------------------------
# tokens

TOK = re.compile(r'''
   (?P<ws>\s+)
 | (?P<str>"(?:\\.|[^"\\])*")
 | (?P<chr>'(?:\\.|[^'\\])*')
 | (?P<num>\.?\d(?:[\w.]|(?<=[eEpP])[+-])*)
 | (?P<id>[A-Za-z_]\w*)
 | (?P<op>->\*|->|::|\+\+|--|<<=|>>=|<=|>=|==|!=|&&|\|\||<<|>>|\+=|-=|\*=|/=|%=|&=|\|=|\^=|\.\.\.|[{}()\[\];,<>=+\-*/%!&|^~?:.\#@$`\\])
''', re.X)


class Tok:
    __slots__ = ("k", "s", "file", "line")

    def __init__(self, k, s, file, line):
        self.k, self.s, self.file, self.line = k, s, file, line

    def __repr__(self):
        return self.s


def tokenize(lines):
    toks = []
    for (f, ln, text) in lines:
        pos = 0
        n = len(text)
        while pos < n:
            m = TOK.match(text, pos)
            if not m:
                toks.append(Tok("bad", text[pos], f, ln))
                pos += 1
                continue
            pos = m.end()
            k = m.lastgroup
            if k == "ws":
                continue
            toks.append(Tok(k, m.group(0), f, ln))
    return toks


def text_of(toks):
    """Canonical text of a token list: tokens separated by one blank, string
    literals that name source files (__FILE__) and line numbers following them
    are kept as they are; callers drop those before printing."""
    return " ".join(t.s for t in toks)


OPEN = {"(": ")", "{": "}", "[": "]"}
CLOSE = {")": "(", "}": "{", "]": "["}


def match_close(toks, i):
    """index of the token closing the bracket opened at i"""
    o = toks[i].s
    c = OPEN[o]
    d = 0
    for j in range(i, len(toks)):
        s = toks[j].s
        if s == o:
            d += 1
        elif s == c:
            d -= 1
            if d == 0:
                return j
    return -1


def match_angle(toks, i):
    """index of the `>` closing the `<` at i (template argument list; `>>`
    counts twice); -1 if none before a `;`"""
    d = 0
    for j in range(i, len(toks)):
        s = toks[j].s
        if s == "<":
            d += 1
        elif s == ">":
            d -= 1
        elif s == ">>":
            d -= 2
        elif s in (";", "{", "}"):
            return -1
        if d <= 0 and j > i:
            return j
    return -1


def split_top(toks, sep=","):
    """split a token list at top-level separators (brackets and template
    angle brackets after an identifier are nested)"""
    parts, cur = [], []
    d = 0
    ang = 0
    for idx, t in enumerate(toks):
        s = t.s
        if s in OPEN:
            d += 1
        elif s in CLOSE:
            d -= 1
        elif s == "<" and idx > 0 and toks[idx - 1].k == "id" and match_angle(toks, idx) > 0:
            ang += 1
        elif s == ">" and ang > 0:
            ang -= 1
        elif s == ">>" and ang > 0:
            ang = max(0, ang - 2)
        if s == sep and d == 0 and ang == 0:
            parts.append(cur)
            cur = []
        else:
            cur.append(t)
    parts.append(cur)
    return parts


# --------------------------------------------------------------------------
# statements

class Stmt:
    def __init__(self, kind, **kw):
        self.kind = kind
        self.__dict__.update(kw)


def parse_block(toks):
    """toks: the tokens between `{` and `}`. Returns list of Stmt."""
    out = []
    i = 0
    n = len(toks)
    while i < n:
        t = toks[i]
        if t.s == ";":
            i += 1
            continue
        if t.s == "{":
            j = match_close(toks, i)
            if j < 0:
                out.append(Stmt("unsupported", text=text_of(toks[i:])))
                break
            out.append(Stmt("block", body=parse_block(toks[i + 1:j])))
            i = j + 1
            continue
        if t.s in ("if", "for", "while", "switch"):
            if i + 1 >= n or toks[i + 1].s != "(":
                out.append(Stmt("unsupported", text=text_of(toks[i:])))
                break
            j = match_close(toks, i + 1)
            head = toks[i + 2:j]
            k = j + 1
            if k < n and toks[k].s == "{":
                e = match_close(toks, k)
                body = parse_block(toks[k + 1:e])
                k = e + 1
            else:
                # single statement body: up to the next `;`
                e = k
                d = 0
                while e < n and not (toks[e].s == ";" and d == 0):
                    if toks[e].s in OPEN:
                        d += 1
                    elif toks[e].s in CLOSE:
                        d -= 1
                    e += 1
                body = parse_block(toks[k:e + 1])
                k = e + 1
            els = None
            if t.s == "if" and k < n and toks[k].s == "else":
                if k + 1 < n and toks[k + 1].s == "{":
                    e = match_close(toks, k + 1)
                    els = parse_block(toks[k + 2:e])
                    k = e + 1
                else:
                    out.append(Stmt("unsupported", text=text_of(toks[k:])))
                    break
            if t.s in ("while", "switch"):
                out.append(Stmt("unsupported", text=text_of(toks[i:k])))
            else:
                out.append(Stmt(t.s, head=head, body=body, els=els, toks=toks[i:k]))
            i = k
            continue
        if t.s in ("try", "catch", "do", "goto", "else", "case", "default", "break", "continue"):
            out.append(Stmt("unsupported", text=text_of(toks[i:])))
            break
        # simple statement: up to `;` at depth 0
        e = i
        d = 0
        while e < n and not (toks[e].s == ";" and d == 0):
            if toks[e].s in OPEN:
                d += 1
            elif toks[e].s in CLOSE:
                d -= 1
            e += 1
        st = toks[i:e]
        if e >= n:
            out.append(Stmt("unsupported", text=text_of(st)))
            break
        if t.s == "return":
            out.append(Stmt("return", expr=st[1:], toks=st))
        elif t.s == "throw":
            out.append(Stmt("throw", expr=st[1:], toks=st))
        elif t.s == "delete":
            out.append(Stmt("delete", expr=st[1:], toks=st))
        else:
            out.append(Stmt("simple", toks=st))
        i = e + 1
    return out


def is_throw_block(stmts):
    """The expansion of PRIMITIV_THROW_ERROR(msg): { std::stringstream ss; ss << ...; throw primitiv::Error(file, line, ss.str()); }
    possibly wrapped in further blocks. Returns the message (string literals concatenated) or None."""
    flat = []

    def walk(ss):
        for s in ss:
            if s.kind == "block":
                walk(s.body)
            else:
                flat.append(s)
    walk(stmts)
    if len(flat) != 3:
        return None
    a, b, c = flat
    if a.kind != "simple" or text_of(a.toks) != "std :: stringstream ss":
        return None
    if b.kind != "simple" or len(b.toks) < 3 or b.toks[0].s != "ss" or b.toks[1].s != "<<":
        return None
    if not all(t.k == "str" for t in b.toks[2:]):
        return None
    if c.kind != "throw":
        return None
    ct = [t.s for t in c.expr]
    if ct[:4] != ["primitiv", "::", "Error", "("] or ct[-1] != ")":
        return None
    args = split_top(c.expr[4:-1])
    if len(args) != 3 or text_of(args[2]) != "ss . str ( )":
        return None
    if len(args[0]) != 1 or args[0][0].k != "str" or len(args[1]) != 1 or args[1][0].k != "num":
        return None
    return "".join(json.loads(t.s) for t in b.toks[2:])


# --------------------------------------------------------------------------
# wrapper analysis

HANDLES = ["Device", "Node", "Graph", "Initializer", "Model", "Parameter", "Shape", "Tensor", "Optimizer"]
HELPERS = ["copy_vector_to_array", "copy_string_to_array", "move_vector_to_array_of_c_ptrs"]

# kinds of uses (Lean: inductive UseKind)
DEREF = {"star", "starWrite", "arrow", "cppStar", "cppArrow", "index", "rangeData", "rangeObjPtr", "rangeString",
         "asString", "rawFwd", "sizeArg"}


class Param:
    def __init__(self, toks):
        self.toks = toks
        self.ok = True
        names = [t for t in toks if t.k == "id"]
        if not toks or toks[-1].k != "id" or len(names) < 2:
            self.ok = False
            self.name = text_of(toks)
            self.ty = ""
            self.depth = 0
            self.const = False
            self.base = ""
            return
        self.name = toks[-1].s
        ty = toks[:-1]
        self.ty = text_of(ty)
        self.depth = sum(1 for t in ty if t.s == "*")
        self.const = bool(ty) and ty[0].s == "const"
        base = [t.s for t in ty if t.k == "id" and t.s != "const"]
        self.base = base[0] if len(base) == 1 else ""
        if any(t.s in ("&", "&&", "[", "(", "...") for t in ty) or not self.base:
            self.ok = False
        self.handle = ""
        m = re.match(r"primitiv(\w+)_t$", self.base)
        if m and m.group(1) in HANDLES:
            self.handle = m.group(1)
        self.role = "unknown"
        self.count = None     # index of the count parameter
        self.size = None      # index of the size_t* in/out parameter of an output buffer
        self.owned = False


def callee_and_index(toks, i):
    """For the token at position i that is an argument of a call or of a braced
    initialiser: (callee text, argument index), found by walking left to the
    unmatched opening bracket."""
    d = 0
    commas = 0
    j = i - 1
    while j >= 0:
        s = toks[j].s
        if s in CLOSE:
            d += 1
        elif s in OPEN:
            if d == 0:
                break
            d -= 1
        elif s == "," and d == 0:
            commas += 1
        j -= 1
    if j < 0:
        return None, None, None
    opener = toks[j].s
    # callee: tokens to the left of the opener forming a (qualified / member) name, with template args
    k = j - 1
    name = []
    while k >= 0:
        s = toks[k].s
        if toks[k].k == "id" or s in ("::", ".", "->"):
            name.append(s)
            k -= 1
        elif s in (">", ">>"):
            # template argument list: find the matching '<'
            dd = 0
            m = k
            while m >= 0:
                if toks[m].s == ">":
                    dd += 1
                elif toks[m].s == ">>":
                    dd += 2
                elif toks[m].s == "<":
                    dd -= 1
                    if dd == 0:
                        break
                m -= 1
            if m < 0:
                break
            name.append("".join(t.s if t.k != "id" else " " + t.s + " " for t in toks[m:k + 1]).replace("  ", " ").strip())
            k = m - 1
        elif s == ")" and name and name[-1] in (".", "->"):
            # call result: f(x).g( ... ) — skip the call
            dd = 0
            m = k
            while m >= 0:
                if toks[m].s == ")":
                    dd += 1
                elif toks[m].s == "(":
                    dd -= 1
                    if dd == 0:
                        break
                m -= 1
            name.append("()")
            k = m - 1
        else:
            break
    name.reverse()
    return "".join(name), commas, opener


def analyse_wrapper(name, ptoks, body, handlers, has_try, file, line):
    w = {"name": name, "file": file, "line": line, "params": [], "uses": [], "unsupported": [],
         "hasTry": has_try, "handler": "none", "endsWithReturnOk": False, "otherReturns": 0,
         "call": "", "helper": "", "checkTexts": []}
    params = []
    raw = split_top(ptoks)
    if len(raw) == 1 and (not raw[0] or text_of(raw[0]) == "void"):
        raw = []
    for p in raw:
        pp = Param(p)
        if not pp.ok:
            w["unsupported"].append("parameter: " + text_of(p))
        params.append(pp)
    pidx = {p.name: i for i, p in enumerate(params)}
    aliases = {}     # local name -> (param index, "cpp" | "same")
    locals_from = {}  # local name -> param index it was initialised from (by value)
    uses = w["uses"]
    calls = []

    def unsupported(what, toks):
        w["unsupported"].append(what + ": " + strip_src(toks))

    stmt_no = [0]

    def use(p, kind, loop=False, cond=False, text=""):
        uses.append({"param": p, "kind": kind, "loop": loop, "cond": cond, "text": text, "stmt": stmt_no[0]})

    def scan(toks, loop, cond, loopvar=None, stmt_start=True):
        """classify every occurrence of a parameter / alias in a token list"""
        n = len(toks)
        i = 0
        skip = set()
        while i < n:
            t = toks[i]
            if i in skip or t.k != "id" or (i > 0 and toks[i - 1].s in (".", "->", "::")):
                i += 1
                continue
            nm = t.s
            if nm in pidx:
                p = pidx[nm]
                via = None
            elif nm in aliases:
                p, via = aliases[nm]
            else:
                i += 1
                continue
            P = params[p]
            prev = toks[i - 1].s if i > 0 else ""
            nxt = toks[i + 1].s if i + 1 < n else ""
            if P.depth == 0:
                use(p, "valueUse", loop, cond)
                i += 1
                continue
            # alias of to_cpp_ptr(p): behaves like the group `to_cpp_ptr(p)`
            if via == "cpp":
                gl, gr = i, i
            elif via is None and i >= 2 and toks[i - 2].s == "to_cpp_ptr" and prev == "(" and nxt == ")":
                gl, gr = i - 2, i + 1
            else:
                gl = gr = None
            if gl is not None:
                gprev = toks[gl - 1].s if gl > 0 else ""
                gpp = toks[gl - 2].s if gl > 1 else ""
                gnext = toks[gr + 1].s if gr + 1 < n else ""
                if gnext == "->":
                    use(p, "cppArrow", loop, cond)
                elif gprev == "*" and (gl - 1 == 0 or gpp in ("(", ",", "=", "return", "{")):
                    use(p, "cppStar", loop, cond)
                elif gprev in ("(", ",") and gnext in (",", ")"):
                    cal, ai, op = callee_and_index(toks, gl)
                    use(p, "fwdCpp", loop, cond, text=cal or "")
                else:
                    unsupported("use of `%s`" % nm, toks)
                i += 1
                continue
            # element: to_cpp_ptr(p[i])
            if (i >= 2 and toks[i - 2].s == "to_cpp_ptr" and prev == "(" and nxt == "[" and i + 4 < n
                    and toks[i + 2].k == "id" and toks[i + 3].s == "]" and toks[i + 4].s == ")"):
                gl, gr = i - 2, i + 4
                gprev = toks[gl - 1].s if gl > 0 else ""
                gpp = toks[gl - 2].s if gl > 1 else ""
                gnext = toks[gr + 1].s if gr + 1 < n else ""
                if toks[i + 2].s != loopvar:
                    unsupported("element index is not the loop variable", toks)
                use(p, "index", loop, cond)
                if gnext == "->":
                    use(p, "elemCppArrow", loop, cond)
                elif gprev == "*" and (gl - 1 == 0 or gpp in ("(", ",", "=", "return", "{")):
                    use(p, "elemCppStar", loop, cond)
                elif gprev in ("(", ",") and gnext in (",", ")"):
                    use(p, "elemFwdCpp", loop, cond)
                else:
                    unsupported("use of `%s[...]`" % nm, toks)
                i += 1
                continue
            if prev == "*" and (i - 1 == 0 or toks[i - 2].s in ("(", ",", "=", "return", "{", "!")):
                if i - 1 == 0 and nxt == "=" and stmt_start:
                    use(p, "starWrite", loop, cond)
                else:
                    use(p, "star", loop, cond)
                i += 1
                continue
            if nxt == "->":
                use(p, "arrow", loop, cond)
                i += 1
                continue
            # range: ( p , p + n )
            if (prev == "(" and nxt == "," and i + 5 < n and toks[i + 2].s == nm and toks[i + 3].s == "+"
                    and toks[i + 4].k == "id" and toks[i + 5].s == ")"):
                cal, ai, op = callee_and_index(toks, i)
                cnt = toks[i + 4].s
                m = re.match(r"std::vector<\s*(.*?)\s*>$", cal or "")
                if not m or cnt not in pidx or params[pidx[cnt]].depth != 0:
                    unsupported("range over `%s`" % nm, toks)
                else:
                    el = m.group(1).replace(" ", "")
                    if el == "std::string":
                        kind = "rangeString"
                    elif el.endswith("*"):
                        kind = "rangeObjPtr"
                    else:
                        kind = "rangeData"
                    use(p, kind, loop, cond, text=el)
                    P.count = pidx[cnt]
                    use(pidx[cnt], "valueUse", loop, cond)
                skip.update((i + 2, i + 4))
                i += 1
                continue
            if nxt == "[":
                use(p, "index", loop, cond)
                unsupported("element of `%s` used outside to_cpp_ptr(...)" % nm, toks)
                i += 1
                continue
            # reinterpret_cast< T >( p )
            if prev == "(" and nxt == ")" and i >= 2 and toks[i - 2].s in (">", ">>"):
                cal, ai, op = callee_and_index(toks, i)
                if cal and cal.startswith("reinterpret_cast<"):
                    # only as the initialiser of a local: handled by the caller (alias)
                    use(p, "aliasDef", loop, cond)
                    i += 1
                    continue
            if prev in ("(", ",", "{") and nxt in (",", ")", "}"):
                cal, ai, op = callee_and_index(toks, i)
                short = (cal or "").split("::")[-1]
                if cal and cal.startswith("primitiv::c::internal::") and short in HELPERS:
                    if ai == 1:
                        use(p, "fwdBuf", loop, cond, text=short)
                        w["helper"] = short
                    elif ai == 2:
                        use(p, "sizeArg", loop, cond, text=short)
                    else:
                        unsupported("argument %d of %s" % (ai, short), toks)
                elif P.depth == 1 and P.base == "char":
                    use(p, "asString", loop, cond, text=cal or "")
                elif P.depth == 1 and not P.handle:
                    use(p, "rawFwd", loop, cond, text=cal or "")
                else:
                    unsupported("pointer `%s` forwarded without to_cpp_ptr" % nm, toks)
                i += 1
                continue
            if prev == "[" and nxt == "]" and P.depth == 1 and P.base == "char":
                use(p, "asString", loop, cond, text="operator[]")
                i += 1
                continue
            unsupported("use of `%s`" % nm, toks)
            i += 1

    def null_check(s):
        """`if (!X) { throw-block }` -> (param index, is_element, text) or None"""
        if s.kind != "if" or s.els is not None:
            return None
        msg = is_throw_block(s.body)
        if msg is None:
            return None
        h = s.head
        if not h or h[0].s != "!":
            return None
        x = h[1:]
        xs = [t.s for t in x]
        if len(xs) == 3 and xs[0] == "(" and xs[2] == ")":
            xs = xs[1:2]
        return (xs, msg)

    def walk(stmts, loop, cond, loopvar=None, top=False):
        for si, s in enumerate(stmts):
            last = top and si == len(stmts) - 1
            stmt_no[0] += 1
            if s.kind == "unsupported":
                w["unsupported"].append("statement: " + s.text[:200])
                continue
            if s.kind == "block":
                walk(s.body, loop, cond, loopvar)
                continue
            if s.kind == "if":
                nc = null_check(s)
                if nc:
                    xs, msg = nc
                    m = re.match(r"Argument `(.*)` must not be null\.$", msg)
                    shown = m.group(1).replace(" ", "") if m else None
                    if len(xs) == 1 and (xs[0] in pidx or xs[0] in aliases):
                        p = pidx[xs[0]] if xs[0] in pidx else aliases[xs[0]][0]
                        if shown is None or (xs[0] in pidx and shown != xs[0]):
                            unsupported("null check whose message does not name the argument", s.toks)
                        use(p, "check", loop, cond, text=shown or "")
                    elif (len(xs) == 4 and xs[0] in pidx and xs[1] == "[" and xs[3] == "]") or \
                         (len(xs) == 6 and xs[0] == "(" and xs[1] in pidx and xs[2] == ")" and xs[3] == "[" and xs[5] == "]"):
                        pn = xs[0] if len(xs) == 4 else xs[1]
                        iv = xs[2] if len(xs) == 4 else xs[4]
                        if iv != loopvar or not loop:
                            unsupported("element check outside a counted loop", s.toks)
                        use(pidx[pn], "elemCheck", loop, cond, text=shown or "")
                    else:
                        unsupported("null check of something that is not an argument", s.toks)
                    continue
                # other conditional
                if any(t.s in ("return", "throw") for t in s.toks):
                    unsupported("conditional with return/throw", s.toks)
                scan(s.head, loop, True, loopvar, stmt_start=False)
                walk(s.body, loop, True, loopvar)
                if s.els:
                    walk(s.els, loop, True, loopvar)
                continue
            if s.kind == "for":
                parts = split_top(s.head, ";")
                ok = len(parts) == 3
                if ok:
                    ini, cnd, stp = [[t.s for t in p] for p in parts]
                    ok = (len(ini) == 4 and ini[0] in ("size_t", "std::size_t", "uint32_t") and ini[2] == "=" and ini[3] == "0"
                          ) or (len(ini) == 6 and ini[:3] == ["std", "::", "size_t"] and ini[4] == "=" and ini[5] == "0")
                if ok:
                    iv = ini[-3]
                    if len(cnd) == 5 and cnd[2] == "(" and cnd[4] == ")":
                        cnd = cnd[:2] + [cnd[3]]
                    ok = len(cnd) == 3 and cnd[0] == iv and cnd[1] == "<" and cnd[2] in pidx and params[pidx[cnd[2]]].depth == 0 \
                        and stp in (["++", iv], [iv, "++"])
                if not ok:
                    unsupported("loop", s.toks)
                    continue
                cntp = pidx[cnd[2]]
                use(cntp, "valueUse", True, cond)
                before = len(uses)
                walk(s.body, True, cond, iv)
                for u in uses[before:]:
                    if u["kind"] in ("index", "elemCheck") and params[u["param"]].count is None:
                        params[u["param"]].count = cntp
                continue
            if s.kind == "return":
                if last and [t.s for t in s.expr] == ["0"] and not loop and not cond:
                    w["endsWithReturnOk"] = True
                else:
                    w["otherReturns"] += 1
                    unsupported("return", s.toks)
                continue
            if s.kind == "throw":
                unsupported("throw", s.toks)
                continue
            if s.kind == "delete":
                ex = [t.s for t in s.expr]
                if len(ex) == 4 and ex[0] == "to_cpp_ptr" and ex[1] == "(" and ex[3] == ")" and ex[2] in pidx:
                    use(pidx[ex[2]], "cppDelete", loop, cond)
                    calls.append(strip_src(s.toks))
                else:
                    unsupported("delete", s.toks)
                continue
            # simple statement
            toks = s.toks
            ts = [t.s for t in toks]
            # declaration of a local?  `T name = init`, `T name{...}`, `T name`
            decl = split_decl(toks)
            if decl:
                ty, nm, init = decl
                if nm in pidx:
                    unsupported("local shadows a parameter", toks)
                    continue
                its = [t.s for t in init]
                if len(its) == 4 and its[0] == "to_cpp_ptr" and its[1] == "(" and its[3] == ")" and its[2] in pidx:
                    aliases[nm] = (pidx[its[2]], "cpp")
                    continue
                if its and its[0] == "reinterpret_cast" and its[-1] == ")" and len(its) >= 4 and its[-2] in pidx and its[-3] == "(" \
                        and match_angle(init, 1) == len(init) - 4:
                    aliases[nm] = (pidx[its[-2]], "same")
                    continue
                if len(its) == 1 and its[0] in pidx and params[pidx[its[0]]].depth == 0:
                    locals_from[nm] = pidx[its[0]]
                    use(pidx[its[0]], "valueUse", loop, cond)
                    continue
                scan(init, loop, cond, loopvar, stmt_start=False)
                if init:
                    calls.append(strip_src(toks))
                continue
            scan(toks, loop, cond, loopvar)
            calls.append(strip_src(toks))
            # the output array of move_vector_to_array_of_c_ptrs takes its capacity from `&size`
            for k, t in enumerate(toks):
                if t.s == "move_vector_to_array_of_c_ptrs" and k + 1 < len(toks) and toks[k + 1].s == "(":
                    e = match_close(toks, k + 1)
                    args = split_top(toks[k + 2:e])
                    if len(args) == 3 and len(args[1]) == 1 and args[1][0].s in pidx:
                        a2 = [x.s for x in args[2]]
                        if len(a2) == 2 and a2[0] == "&" and a2[1] in locals_from:
                            params[pidx[args[1][0].s]].count = locals_from[a2[1]]
                        else:
                            unsupported("capacity of the output array", toks)

    walk(body, False, False, None, top=True)
    # handlers
    if has_try:
        if len(handlers) == 1 and handlers[0] == HANDLER_TEXT:
            w["handler"] = "stdException"
        else:
            w["handler"] = "other"
            w["handlerText"] = " | ".join(handlers)
    # roles
    for i, P in enumerate(params):
        ks = [u["kind"] for u in uses if u["param"] == i]
        kset = set(ks) - {"check", "elemCheck"}
        if P.depth == 0:
            P.role = "value"
        elif "starWrite" in kset:
            rhs = " ".join(c for c in calls if c.startswith("* " + P.name + " ="))
            if P.handle and P.depth == 2:
                if "to_c_ptr_from_value (" in rhs or "to_c_ptr ( new " in rhs:
                    P.role, P.owned = "outHandle", True
                elif "to_c_ptr ( &" in rhs:
                    P.role, P.owned = "outHandle", False
                else:
                    w["unsupported"].append("ownership of output `%s`: %s" % (P.name, rhs[:120]))
            elif P.depth == 1 and not P.handle:
                P.role = "outScalar"
            else:
                w["unsupported"].append("output parameter `%s` of type %s" % (P.name, P.ty))
        elif "fwdBuf" in kset:
            if P.handle and P.depth == 2:
                P.role, P.owned = "outHandleArray", True
            elif P.depth == 1:
                P.role = "outBuf"
            else:
                w["unsupported"].append("buffer parameter `%s` of type %s" % (P.name, P.ty))
        elif "sizeArg" in kset:
            P.role = "sizeInOut"
        elif kset & {"rangeData", "rangeString", "rangeObjPtr"}:
            P.role = {"rangeData": "inArray", "rangeString": "inStringArray", "rangeObjPtr": "inHandleArray"}[
                [k for k in ks if k.startswith("range")][0]]
        elif kset & {"elemCppStar", "elemCppArrow", "elemFwdCpp"}:
            P.role = "inHandleArray"
        elif kset & {"cppStar", "cppArrow", "cppDelete"}:
            P.role = "inHandle"
        elif kset == {"fwdCpp"}:
            P.role = "inHandleNullable"
        elif kset == {"asString"}:
            P.role = "inString"
        elif kset == {"rawFwd"}:
            P.role = "inRaw"
        elif not kset:
            P.role = "unused"
            w["unsupported"].append("parameter `%s` is never used" % P.name)
        else:
            w["unsupported"].append("role of `%s` (%s)" % (P.name, ",".join(sorted(kset))))
    for i, P in enumerate(params):
        if P.role in ("inArray", "inStringArray", "inHandleArray", "outHandleArray") and P.count is None:
            w["unsupported"].append("array `%s` without a count parameter" % P.name)
        if P.count is not None:
            params[P.count].role = "count"
    # output buffers and their size parameter
    for i, P in enumerate(params):
        if P.role == "outBuf":
            sz = [j for j, Q in enumerate(params) if Q.role == "sizeInOut"]
            if len(sz) == 1:
                P.size = sz[0]
            else:
                w["unsupported"].append("size parameter of buffer `%s`" % P.name)
    for u in uses:
        if u["kind"] == "aliasDef":
            w["unsupported"].append("reinterpret_cast of `%s` outside a local initialiser" % params[u["param"]].name)
    w["params"] = params
    w["call"] = " ; ".join(c for c in calls)
    return w


HANDLER_TEXT = "catch ( const std :: exception & e ) { return primitiv :: c :: internal :: ErrorHandler :: get_instance ( ) . handle ( e ) ; }"


def strip_src(toks):
    """text without __FILE__ / __LINE__ expansions"""
    out = []
    for t in toks:
        if t.k == "str" and (t.s.endswith('.cc"') or t.s.endswith('.h"')) and "/" in t.s:
            out.append('"<file>"')
        else:
            out.append(t.s)
    s = " ".join(out)
    return re.sub(r'"<file>" , \d+', '"<file>" , <line>', s)


TYPE_START = {"const", "std", "size_t", "uint32_t", "int32_t", "float", "auto", "Optimizer", "Node", "Tensor", "primitiv",
              "char", "int", "unsigned", "bool", "double"}


def split_decl(toks):
    """`T name = init` | `T name { init }` | `T name` -> (type toks, name, init toks) or None when the
    statement is an expression."""
    if not toks or toks[0].k != "id" or toks[0].s not in TYPE_START:
        return None
    # find the declared name: last identifier before a top-level `=`, `{` or the end
    d = 0
    ang = 0
    cut = len(toks)
    for i, t in enumerate(toks):
        s = t.s
        if s == "<" and i > 0 and toks[i - 1].k == "id" and match_angle(toks, i) > 0:
            ang += 1
        elif s == ">" and ang:
            ang -= 1
        elif s == ">>" and ang:
            ang = max(0, ang - 2)
        elif ang == 0:
            if s in ("(", "["):
                d += 1
            elif s in (")", "]"):
                d -= 1
            elif d == 0 and s in ("=", "{"):
                cut = i
                break
            elif d == 0 and s in (".", "->", "+=", "-=", "<<"):
                return None
    head = toks[:cut]
    if len(head) < 2 or head[-1].k != "id":
        return None
    if head[-2].s in ("::", ".", "->"):
        return None
    if any(t.s in ("(", ")") for t in head):
        return None
    nm = head[-1].s
    if cut == len(toks):
        init = []
    elif toks[cut].s == "=":
        init = toks[cut + 1:]
    else:
        init = toks[cut:]
    return head[:-1], nm, init


# --------------------------------------------------------------------------
# top level scan

def scan_top(toks):
    """Walk the token stream of the C API's own text: collect extern "C"
    declarations, global definitions returning PRIMITIV_C_STATUS, the class
    ErrorHandler, the helper templates, the thread_local handler object."""
    decls, defs, facts = [], [], {"classes": {}, "helpers": {}, "globals": []}
    n = len(toks)
    i = 0
    scope = []   # stack of ("namespace", name) | ("extern",) | ("other",)

    def at_global():
        return all(s[0] == "extern" for s in scope)

    def in_internal():
        return [s[1] for s in scope if s[0] == "namespace"] == ["primitiv", "c", "internal"] and \
            all(s[0] in ("namespace", "extern") for s in scope)

    while i < n:
        t = toks[i]
        s = t.s
        if s == "namespace" and i + 2 < n and toks[i + 1].k == "id" and toks[i + 2].s == "{":
            scope.append(("namespace", toks[i + 1].s))
            i += 3
            continue
        if s == "extern" and i + 2 < n and toks[i + 1].s == '"C"' and toks[i + 2].s == "{":
            scope.append(("extern",))
            i += 3
            continue
        if s == "}":
            if scope:
                scope.pop()
            i += 1
            continue
        if s == "{":
            # an opaque block at this level (should not happen: bodies are consumed below)
            j = match_close(toks, i)
            i = j + 1 if j > 0 else n
            continue
        if in_internal() and s == "class" and i + 2 < n and toks[i + 1].s == "ErrorHandler" and toks[i + 2].s == "{":
            j = match_close(toks, i + 2)
            facts["classes"]["ErrorHandler"] = toks[i + 3:j]
            i = j + 1
            continue
        if in_internal() and s == "template":
            # template<...> [inline] void helper(params) { body }
            j = match_angle(toks, i + 1)
            k = j + 1
            hdr = []
            while k < n and toks[k].s not in ("(", ";", "{"):
                hdr.append(toks[k])
                k += 1
            if k < n and toks[k].s == "(" and hdr and hdr[-1].s in HELPERS:
                e = match_close(toks, k)
                if e + 1 < n and toks[e + 1].s == "{":
                    b = match_close(toks, e + 1)
                    facts["helpers"][hdr[-1].s] = (toks[k + 1:e], toks[e + 2:b])
                    i = b + 1
                    continue
            # other templates (Throwable alias, ...): skip to `;` or body
            while k < n and toks[k].s not in (";", "{"):
                k += 1
            if k < n and toks[k].s == "{":
                k = match_close(toks, k)
            i = k + 1
            continue
        if in_internal() and s == "inline" and i + 2 < n and toks[i + 1].s == "void" and toks[i + 2].s in HELPERS:
            k = i + 3
            e = match_close(toks, k)
            if e + 1 < n and toks[e + 1].s == "{":
                b = match_close(toks, e + 1)
                facts["helpers"][toks[i + 2].s] = (toks[k + 1:e], toks[e + 2:b])
                i = b + 1
                continue
        if in_internal() and s == "static" or (in_internal() and s == "thread_local"):
            k = i
            while k < n and toks[k].s != ";" and toks[k].s != "{":
                k += 1
            if k < n and toks[k].s == ";":
                facts["globals"].append(text_of(toks[i:k]))
                i = k + 1
                continue
        if in_internal() and s == "ErrorHandler" and i + 4 < n and toks[i + 1].s == "&" and toks[i + 2].s == "ErrorHandler" \
                and toks[i + 3].s == "::" and toks[i + 4].s == "get_instance":
            k = i + 5
            e = match_close(toks, k)
            if e + 1 < n and toks[e + 1].s == "{":
                b = match_close(toks, e + 1)
                facts["get_instance"] = text_of(toks[e + 2:b])
                i = b + 1
                continue
        if s == "PRIMITIV_C_STATUS" and i + 2 < n and toks[i + 1].k == "id" and toks[i + 2].s == "(":
            name = toks[i + 1].s
            e = match_close(toks, i + 2)
            ptoks = toks[i + 3:e]
            # what precedes: extern "C" __attribute__((...)) ?
            k = i - 1
            pre = []
            while k >= 0 and toks[k].s not in (";", "}", "{"):
                pre.append(toks[k].s)
                k -= 1
            pre.reverse()
            nxt = toks[e + 1].s if e + 1 < n else ""
            if not at_global():
                if any(sc[0] == "other" for sc in scope):
                    i = e + 1
                    continue
                defs.append({"name": name, "bad": "PRIMITIV_C_STATUS function outside the global namespace", "file": t.file, "line": t.line})
                i = e + 1
                continue
            if nxt == ";":
                dps = split_top(ptoks)
                if len(dps) == 1 and (not dps[0] or text_of(dps[0]) == "void"):
                    dps = []
                decls.append({"name": name, "params": text_of(ptoks), "types": [Param(p).ty for p in dps], "externC": pre[:2] == ["extern", '"C"'] or any(sc[0] == "extern" for sc in scope),
                              "file": t.file, "line": t.line})
                i = e + 2
                continue
            has_try = False
            k = e + 1
            if nxt == "try":
                has_try = True
                k += 1
            if k >= n or toks[k].s != "{":
                defs.append({"name": name, "bad": "definition not followed by a body: " + text_of(toks[e + 1:e + 6]), "file": t.file, "line": t.line})
                i = e + 1
                continue
            b = match_close(toks, k)
            body = toks[k + 1:b]
            handlers = []
            k = b + 1
            while k < n and toks[k].s == "catch":
                e2 = match_close(toks, k + 1)
                b2 = match_close(toks, e2 + 1)
                handlers.append(text_of(toks[k:b2 + 1]))
                k = b2 + 1
            defs.append({"name": name, "ptoks": ptoks, "body": body, "handlers": handlers, "hasTry": has_try,
                         "file": t.file, "line": t.line, "pre": pre})
            i = k
            continue
        # any other global definition with a body: skip the body (opaque)
        i += 1
    return decls, defs, facts


# --------------------------------------------------------------------------
# facts about ErrorHandler and the helpers

def member_body(cls, name):
    """tokens of the body of member function `name` of a class body"""
    n = len(cls)
    for i in range(n - 1):
        if cls[i].s == name and cls[i + 1].s == "(" and (i == 0 or cls[i - 1].s not in ("::", ".", "->", "~")):
            e = match_close(cls, i + 1)
            k = e + 1
            while k < n and cls[k].s in ("const", "noexcept"):
                k += 1
            if k < n and toks_is(cls[k], ":"):
                # constructor initialiser list up to the body
                while k < n and cls[k].s != "{":
                    k += 1
            if k < n and cls[k].s == "{":
                b = match_close(cls, k)
                return cls[i + 2:e], cls[e + 1:k], cls[k + 1:b]
    return None


def toks_is(t, s):
    return t.s == s


def handler_facts(facts):
    f = {"handleStoresWhat": False, "handleReturnsError": False, "resetStoresOk": False, "initialOk": False,
         "getMessageReturnsStored": False, "threadLocal": False, "notes": []}
    cls = facts["classes"].get("ErrorHandler")
    if cls is None:
        f["notes"].append("class ErrorHandler not found")
        return f
    h = member_body(cls, "handle")
    if h:
        body = text_of(h[2])
        stmts = [s.strip() for s in body.split(";") if s.strip()]
        if "message_ = e . what ( )" in stmts:
            f["handleStoresWhat"] = True
        if stmts and stmts[-1] == "return - 1" and sum(1 for s in stmts if s.startswith("return")) == 1:
            f["handleReturnsError"] = True
        if len(stmts) != 3 or stmts[0] != "exception_ = std :: make_exception_ptr ( e )":
            f["notes"].append("handle: " + body)
    else:
        f["notes"].append("ErrorHandler::handle not found")
    r = member_body(cls, "reset")
    if r:
        stmts = [s.strip() for s in text_of(r[2]).split(";") if s.strip()]
        f["resetStoresOk"] = stmts == ["exception_ = nullptr", 'message_ = "OK"']
    g = member_body(cls, "get_message")
    if g:
        f["getMessageReturnsStored"] = text_of(g[2]) == "return message_ . c_str ( ) ;"
    c = member_body(cls, "ErrorHandler")
    if c:
        f["initialOk"] = 'message_ ( "OK" )' in text_of(c[1])
    f["threadLocal"] = "static thread_local ErrorHandler error_handler" in facts["globals"] and \
        facts.get("get_instance") == "return error_handler ;"
    return f


def helper_facts(name, ptoks, body):
    """Recognise
         if (BUF) { if (*size CMP LEN) { THROW } COPY; } else { *size = LEN [+ 1u]; }
       and return the numbers the model needs."""
    h = {"name": name, "supported": False, "errWhenLess": False, "errWhenEqual": False, "reportExtra": 0,
         "writeExtra": 0, "text": ""}
    params = [Param(p) for p in split_top(ptoks)]
    if len(params) != 3:
        h["text"] = "parameters: " + text_of(ptoks)
        return h
    src, buf, size = [p.name for p in params]
    st = parse_block(body)
    lens = {"%s . size ( )" % src: 0, "%s -> size ( )" % src: 0, "%s . length ( )" % src: 0}
    try:
        assert len(st) == 1 and st[0].kind == "if" and text_of(st[0].head) == buf and st[0].els is not None
        then, els = st[0].body, st[0].els
        assert len(then) == 2 and then[0].kind == "if" and then[0].els is None and is_throw_block(then[0].body) is not None
        cond = text_of(then[0].head)
        m = re.match(r"\* %s (<|<=) (.*)$" % re.escape(size), cond)
        assert m and m.group(2) in lens
        h["errWhenLess"] = True
        h["errWhenEqual"] = m.group(1) == "<="
        cp = text_of(then[1].toks) if then[1].kind == "simple" else ""
        if cp == "std :: copy ( %s . begin ( ) , %s . end ( ) , %s )" % (src, src, buf):
            h["writeExtra"] = 0
        elif cp == "std :: strcpy ( %s , %s . c_str ( ) )" % (buf, src):
            h["writeExtra"] = 1
        elif cp.startswith("std :: transform ( std :: make_move_iterator ( %s -> begin ( ) ) , std :: make_move_iterator ( %s -> end ( ) ) , %s , [ ] (" % (src, src, buf)) \
                and cp.endswith("{ return to_c_ptr_from_value ( std :: forward < T > ( x ) ) ; } )"):
            h["writeExtra"] = 0
        else:
            raise AssertionError("copy statement: " + cp)
        assert len(els) == 1 and els[0].kind == "simple"
        e = text_of(els[0].toks)
        m = re.match(r"\* %s = (.*?)( \+ 1u?)?$" % re.escape(size), e)
        assert m and m.group(1) in lens
        h["reportExtra"] = 1 if m.group(2) else 0
        h["supported"] = True
    except AssertionError as ex:
        h["text"] = (str(ex) or "helper body not in the expected shape") + " :: " + strip_src(body)[:300]
    return h


# --------------------------------------------------------------------------
# driver

def collect(root=None):
    root = root or repo()
    cfg = config_dir()
    srcs = c_sources(root)
    with ThreadPoolExecutor(8) as ex:
        pps = list(ex.map(lambda s: preprocess(s, root, cfg), srcs))
    decls, wrappers, bad = {}, [], []
    classes, helpers, globs, getinst = {}, {}, [], None
    for src, pp in zip(srcs, pps):
        toks = tokenize(own_text(pp, root))
        d, defs, facts = scan_top(toks)
        for x in d:
            if x["name"] in decls and decls[x["name"]]["params"] != x["params"]:
                bad.append("conflicting declarations of " + x["name"])
            decls.setdefault(x["name"], x)
        for x in defs:
            if "bad" in x:
                wrappers.append({"name": x["name"], "file": x["file"], "line": x["line"], "params": [], "uses": [],
                                 "unsupported": [x["bad"]], "hasTry": False, "handler": "none", "endsWithReturnOk": False,
                                 "otherReturns": 0, "call": "", "helper": ""})
                continue
            w = analyse_wrapper(x["name"], x["ptoks"], parse_block(x["body"]), x["handlers"], x["hasTry"], x["file"], x["line"])
            if x["pre"]:
                w["unsupported"].append("qualifiers before the definition: " + " ".join(x["pre"]))
            wrappers.append(w)
        classes.update(facts["classes"])
        helpers.update(facts["helpers"])
        globs += facts["globals"]
        getinst = facts.get("get_instance", getinst)
    names = [w["name"] for w in wrappers]
    for w in wrappers:
        if names.count(w["name"]) > 1:
            w["unsupported"].append("defined more than once")
        d = decls.get(w["name"])
        w["declared"] = bool(d and d["externC"])
        if d and d["types"] != [P.ty for P in w["params"]]:
            w["unsupported"].append("declaration and definition differ: " + d["params"])
    undefined = sorted(set(decls) - set(names))
    hf = handler_facts({"classes": classes, "globals": globs, "get_instance": getinst})
    hs = [helper_facts(n, *helpers[n]) if n in helpers else
          {"name": n, "supported": False, "errWhenLess": False, "errWhenEqual": False, "reportExtra": 0, "writeExtra": 0,
           "text": "helper not found"} for n in HELPERS]
    wrappers.sort(key=lambda w: (w["file"], w["line"], w["name"]))
    return {"wrappers": wrappers, "undefined": undefined, "handler": hf, "helpers": hs, "bad": bad,
            "sources": [os.path.relpath(s, root) for s in srcs]}


# --------------------------------------------------------------------------
# Lean output

def lstr(s):
    return json.dumps(s, ensure_ascii=True).replace("\\u", "\\u")


def lbool(b):
    return "true" if b else "false"


GROUP_ORDER = ["status", "device", "shape", "tensor", "graph", "parameter", "model", "initializer", "optimizer", "functions"]


def group_of(w):
    f = os.path.basename(w["file"])
    stem = f[:-3] if f.endswith(".cc") else f
    if "devices" in w["file"]:
        return "device"
    stem = stem.replace("_impl", "")
    return stem if stem in GROUP_ORDER else "other"


def emit_lean(data):
    L = []
    A = L.append
    A("/- GENERATED by /verif/translate/capi.py from primitiv/c/**/*.cc (g++ -E); do not edit.")
    A("   One row per `PRIMITIV_C_STATUS primitiv...(...)` definition, in source order per file. -/")
    A("import PrimitivModel.Model.CApi")
    A("")
    A("namespace Primitiv.Gen.CApi")
    A("open Primitiv.CApi")
    A("")
    groups = {}
    for w in data["wrappers"]:
        groups.setdefault(group_of(w), []).append(w)
    order = [g for g in GROUP_ORDER if g in groups] + sorted(g for g in groups if g not in GROUP_ORDER)
    chunk_names = []
    for g in order:
        ws = groups[g]
        # chunks of at most 40 rows so that `decide` stays fast
        for ci in range(0, len(ws), 40):
            cname = "rows_%s%s" % (g, "" if len(ws) <= 40 else "_%d" % (ci // 40))
            chunk_names.append(cname)
            rows = []
            for w in ws[ci:ci + 40]:
                dn = "w_" + w["name"]
                rows.append(dn)
                A("def %s : Wrapper :=" % dn)
                A("  { name := %s, file := %s, group := %s," % (lstr(w["name"]), lstr(w["file"]), lstr(g)))
                ps = []
                for P in w["params"]:
                    if isinstance(P, Param):
                        ps.append("{ name := %s, ty := %s, ptrDepth := %d, pointeeConst := %s, role := .%s, count := %s, size := %s, handle := %s, owned := %s }" % (
                            lstr(P.name), lstr(P.ty), P.depth, lbool(P.const), P.role,
                            "none" if P.count is None else "some %d" % P.count,
                            "none" if P.size is None else "some %d" % P.size, lstr(P.handle), lbool(P.owned)))
                A("    params := [%s]," % (",\n      ".join(ps)))
                us = []
                for u in w["uses"]:
                    if u["kind"] == "aliasDef":
                        continue
                    us.append("{ param := %d, kind := .%s, stmt := %d, inLoop := %s, cond := %s, text := %s }" % (
                        u["param"], u["kind"], u["stmt"], lbool(u["loop"]), lbool(u["cond"]), lstr(u["text"])))
                A("    uses := [%s]," % (",\n      ".join(us)))
                A("    hasTry := %s, handler := .%s, endsWithReturnOk := %s, declared := %s," % (
                    lbool(w["hasTry"]), w["handler"], lbool(w["endsWithReturnOk"]), lbool(w.get("declared", False))))
                A("    helper := %s," % lstr(w.get("helper", "")))
                A("    call := %s," % lstr(w["call"]))
                A("    unsupported := [%s] }" % ", ".join(lstr(x[:300]) for x in w["unsupported"]))
                A("")
            A("def %s : List Wrapper := [%s]" % (cname, ", ".join(rows)))
            A("")
    A("/-- the chunks of the table (each small enough for `decide`) -/")
    A("def chunks : List (List Wrapper) := [%s]" % ", ".join(chunk_names))
    A("")
    A("def table : List Wrapper := chunks.flatten")
    A("")
    A("/-- functions declared `extern \"C\"` in the headers that have no definition -/")
    A("def undefinedDecls : List String := [%s]" % ", ".join(lstr(x) for x in data["undefined"] + data["bad"]))
    A("")
    hf = data["handler"]
    A("/-- facts read off `class ErrorHandler` (internal.h) and `error_handler` (internal.cc) -/")
    A("def handlerSpec : HandlerSpec :=")
    A("  { handleStoresWhat := %s, handleReturnsError := %s, resetStoresOk := %s, initialOk := %s," % (
        lbool(hf["handleStoresWhat"]), lbool(hf["handleReturnsError"]), lbool(hf["resetStoresOk"]), lbool(hf["initialOk"])))
    A("    getMessageReturnsStored := %s, threadLocal := %s," % (lbool(hf["getMessageReturnsStored"]), lbool(hf["threadLocal"])))
    A("    notes := [%s] }" % ", ".join(lstr(x[:300]) for x in hf["notes"]))
    A("")
    A("/-- the three size-query helpers of internal.h -/")
    for h in data["helpers"]:
        A("def helper_%s : HelperSpec :=" % h["name"])
        A("  { name := %s, supported := %s, errWhenLess := %s, errWhenEqual := %s, reportExtra := %d, writeExtra := %d, text := %s }" % (
            lstr(h["name"]), lbool(h["supported"]), lbool(h["errWhenLess"]), lbool(h["errWhenEqual"]), h["reportExtra"],
            h["writeExtra"], lstr(h["text"][:300])))
    A("def helperSpecs : List HelperSpec := [%s]" % ", ".join("helper_" + h["name"] for h in data["helpers"]))
    A("")
    A("end Primitiv.Gen.CApi")
    return "\n".join(L) + "\n"


# --------------------------------------------------------------------------
# C++ dispatch for the harness

def emit_dispatch(data):
    """One function per wrapper that builds the arguments from the argument
    pattern through the harness' `Ctx` and calls the C entry point."""
    L = []
    A = L.append
    A("// GENERATED by /verif/translate/capi.py; included by harness/h_capi.cc")
    for w in data["wrappers"]:
        ps = [P for P in w["params"] if isinstance(P, Param)]
        if w["unsupported"] and not all(P.role != "unknown" and P.role != "unused" for P in ps):
            A("// %s: not callable mechanically (unsupported row)" % w["name"])
            continue
        if not w.get("declared"):
            A("// %s: not declared in a header" % w["name"])
            continue
        A("static PRIMITIV_C_STATUS gen_%s(Ctx &c) {" % w["name"])
        args = []
        for i, P in enumerate(ps):
            ty = P.ty.replace(" ", "")
            r = P.role
            v = "a%d" % i
            if r in ("value", "count"):
                cnt_of = [j for j, Q in enumerate(ps) if Q.count == i]
                A("  %s %s = c.value<%s>(%d, %s);" % (P.ty, v, P.ty, i, "true" if r == "count" else "false"))
            elif r in ("inHandle", "inHandleNullable"):
                A("  %s %s = c.in_handle<%s>(%d, H_%s, %s);" % (P.ty, v, P.base, i, P.handle,
                                                            "true" if w["name"].startswith("primitivDelete") else "false"))
            elif r == "outHandle":
                A("  %s %s = c.out_handle<%s>(%d, H_%s, %s);" % (P.ty, v, "const " + P.base if P.const else P.base, i, P.handle, lbool(P.owned)))
            elif r == "outHandleArray":
                A("  %s %s = c.out_handle_array<%s>(%d, H_%s, %d);" % (P.ty, v, P.base, i, P.handle, P.count))
            elif r == "outScalar":
                A("  %s %s = c.out_scalar<%s>(%d);" % (P.ty, v, P.base, i))
            elif r == "outBuf":
                # (a wrapper outside the translated subset has no known size argument: the row carries `unsupported`
                #  entries and CApi.no_unsupported fails; the dispatcher still has to compile)
                A("  %s %s = c.out_buf<%s>(%d, %d);" % (P.ty, v, P.base, i, P.size if P.size is not None else 0))
            elif r == "sizeInOut":
                A("  %s %s = c.size_inout(%d);" % (P.ty, v, i))
            elif r == "inArray" or r == "inRaw":
                A("  %s %s = c.in_array<%s>(%d);" % (P.ty, v, P.base, i))
            elif r == "inStringArray":
                A("  %s %s = c.in_string_array(%d);" % (P.ty, v, i))
            elif r == "inHandleArray":
                A("  %s %s = c.in_handle_array<%s>(%d, H_%s);" % (P.ty, v, P.base, i, P.handle))
            elif r == "inString":
                A("  %s %s = c.in_string(%d, \"%s\");" % (P.ty, v, i, P.name))
            else:
                A("  %s %s = 0; c.unsupported(%d);" % (P.ty, v, i))
            args.append(v)
        A("  return %s(%s);" % (w["name"], ", ".join(args)))
        A("}")
    A("static const GenEntry GEN_TABLE[] = {")
    for w in data["wrappers"]:
        ps = [P for P in w["params"] if isinstance(P, Param)]
        if (w["unsupported"] and not all(P.role != "unknown" and P.role != "unused" for P in ps)) or not w.get("declared"):
            continue
        A("  {\"%s\", %d, gen_%s}," % (w["name"], len(ps), w["name"]))
    A("};")
    return "\n".join(L) + "\n"


def to_json(data):
    """plain-data view of the table for props/C20.py"""
    out = []
    for w in data["wrappers"]:
        ps = []
        for P in w["params"]:
            if isinstance(P, Param):
                ps.append({"name": P.name, "ty": P.ty, "depth": P.depth, "const": P.const, "role": P.role, "count": P.count,
                           "size": P.size, "handle": P.handle, "owned": P.owned, "base": P.base})
        out.append({"name": w["name"], "file": w["file"], "group": group_of(w), "params": ps,
                    "uses": [{"param": u["param"], "kind": u["kind"], "loop": u["loop"], "cond": u["cond"], "text": u["text"], "stmt": u["stmt"]}
                             for u in w["uses"] if u["kind"] != "aliasDef"],
                    "hasTry": w["hasTry"], "handler": w["handler"], "endsWithReturnOk": w["endsWithReturnOk"],
                    "declared": w.get("declared", False), "helper": w.get("helper", ""), "call": w["call"],
                    "unsupported": w["unsupported"]})
    return out


def write_if_changed(path, txt):
    os.makedirs(os.path.dirname(path), exist_ok=True)
    if os.path.exists(path) and open(path).read() == txt:
        return False
    tmp = path + ".tmp%d" % os.getpid()
    with open(tmp, "w") as f:
        f.write(txt)
    os.replace(tmp, path)
    return True


def generate(root=None, lean_out=None, lock=True):
    """Regenerate Gen/CApi.lean (and the harness dispatch) from the tree under
    study. Returns summary statistics and the table as plain data.  The lock
    `capi-gen` serialises writers of Gen/CApi.lean: props/C20.py holds it from
    the regeneration until its Lean build is done (and passes lock=False)."""
    if lock:
        sys.path.insert(0, VERIF)
        from vlib import build
        with build.Lock("capi-gen"):
            return generate(root, lean_out, lock=False)
    data = collect(root)
    lean = emit_lean(data)
    changed = write_if_changed(lean_out or LEAN_OUT, lean)
    disp = emit_dispatch(data)
    h = hashlib.sha256(disp.encode()).hexdigest()[:16]
    gdir = os.path.join(VERIF, ".cache", "gen", "capi-" + h)
    write_if_changed(os.path.join(gdir, "capi_dispatch.inc"), disp)
    golden_same = os.path.exists(GOLDEN) and open(GOLDEN).read() == lean
    ws = data["wrappers"]
    return {
        "wrappers": len(ws),
        "declared": sum(1 for w in ws if w.get("declared")),
        "params": sum(len(w["params"]) for w in ws),
        "uses": sum(len(w["uses"]) for w in ws),
        "null_checks": sum(1 for w in ws for u in w["uses"] if u["kind"] in ("check", "elemCheck")),
        "unsupported": sum(len(w["unsupported"]) for w in ws),
        "unsupported_rows": [w["name"] for w in ws if w["unsupported"]],
        "undefined": data["undefined"],
        "handler": data["handler"],
        "helpers": data["helpers"],
        "lean_changed": changed,
        "same_as_golden": golden_same,
        "dispatch_dir": gdir,
        "dispatch_hash": h,
        "table": to_json(data),
        "sources": data["sources"],
    }


if __name__ == "__main__":
    st = generate()
    if "--golden" in sys.argv:
        write_if_changed(GOLDEN, open(LEAN_OUT).read())
    t = st.pop("table")
    print(json.dumps(st, indent=1)[:3000])
    if "--dump" in sys.argv:
        for w in t:
            print(w["name"], [(p["name"], p["role"], p["count"]) for p in w["params"]],
                  [(w["params"][u["param"]]["name"], u["kind"]) for u in w["uses"]], w["unsupported"])


# --------------------------------------------------------------------------
# self-test: fixed snippets (already preprocessed) with the expected analysis

_SELFTEST = [
    # (text, {param: role}, [(param, kind)], unsupported?, tryBlockOk?)
    ('''PRIMITIV_C_STATUS primitivF(const primitivShape_t *shape, uint32_t i, uint32_t *retval) try {
       if (!shape) { { std::stringstream ss; ss << "Argument `" "shape" "` must not be null."; throw primitiv::Error("a.cc", 1, ss.str()); }; };
       if (!retval) { { std::stringstream ss; ss << "Argument `" "retval" "` must not be null."; throw primitiv::Error("a.cc", 2, ss.str()); }; };
       *retval = to_cpp_ptr(shape)->operator[](i);
       return 0;
     } catch (const std::exception &e) { return primitiv::c::internal::ErrorHandler::get_instance().handle(e); }''',
     {"shape": "inHandle", "i": "value", "retval": "outScalar"},
     [("shape", "check"), ("retval", "check"), ("retval", "starWrite"), ("shape", "cppArrow"), ("i", "valueUse")], False, True),
    ('''PRIMITIV_C_STATUS primitivG(primitivOptimizer_t *optimizer, primitivModel_t **models, size_t n) try {
       Optimizer *cc = to_cpp_ptr(optimizer);
       if (!models) { { std::stringstream ss; ss << "Argument `" "models" "` must not be null."; throw primitiv::Error("a.cc", 1, ss.str()); }; };
       for (size_t i = 0; i < n; ++i) { cc->add(*to_cpp_ptr(models[i])); }
       return 0;
     } catch (const std::exception &e) { return primitiv::c::internal::ErrorHandler::get_instance().handle(e); }''',
     {"optimizer": "inHandle", "models": "inHandleArray", "n": "count"},
     [("models", "check"), ("n", "valueUse"), ("optimizer", "cppArrow"), ("models", "index"), ("models", "elemCppStar")], False, True),
    ('''PRIMITIV_C_STATUS primitivH(const primitivShape_t *shape, primitivDevice_t *dev, char *retval, size_t *size) {
       primitiv::c::internal::copy_string_to_array(f(*to_cpp_ptr(shape), to_cpp_ptr(dev)), retval, size);
       while (true) { }
       return 1;
     }''',
     {"shape": "inHandle", "dev": "inHandleNullable", "retval": "outBuf", "size": "sizeInOut"},
     [("shape", "cppStar"), ("dev", "fwdCpp"), ("retval", "fwdBuf"), ("size", "sizeArg")], True, False),
    ('''PRIMITIV_C_STATUS primitivI(uint32_t value, const char **names, size_t n) try {
       if (!value) { { std::stringstream ss; ss << "Argument `" "value" "` must not be null."; throw primitiv::Error("a.cc", 1, ss.str()); }; };
       g(std::vector<std::string>(names, names + n), value);
       return 0;
     } catch (...) { return 0; }''',
     {"value": "value", "names": "inStringArray", "n": "count"},
     [("value", "check"), ("names", "rangeString"), ("n", "valueUse"), ("value", "valueUse")], False, False),
]


def selftest():
    """Returns a list of failures (empty = the translator still reads the fixed snippets the expected way)."""
    bad = []
    for k, (text, roles, uses, unsup, tryok) in enumerate(_SELFTEST):
        toks = tokenize([("self.cc", i + 1, l) for i, l in enumerate(text.split("\n"))])
        decls, defs, facts = scan_top(toks)
        if len(defs) != 1 or "bad" in defs[0]:
            bad.append("snippet %d: not recognised as one definition" % k)
            continue
        x = defs[0]
        w = analyse_wrapper(x["name"], x["ptoks"], parse_block(x["body"]), x["handlers"], x["hasTry"], x["file"], x["line"])
        got_roles = {P.name: P.role for P in w["params"]}
        got_uses = [(w["params"][u["param"]].name, u["kind"]) for u in w["uses"]]
        if got_roles != roles:
            bad.append("snippet %d: roles %r" % (k, got_roles))
        if got_uses != uses:
            bad.append("snippet %d: uses %r" % (k, got_uses))
        if bool(w["unsupported"]) != unsup:
            bad.append("snippet %d: unsupported %r" % (k, w["unsupported"]))
        ok = w["hasTry"] and w["handler"] == "stdException" and w["endsWithReturnOk"]
        if ok != tryok:
            bad.append("snippet %d: try block %r" % (k, (w["hasTry"], w["handler"], w["endsWithReturnOk"])))
    return bad
