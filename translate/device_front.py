#!/usr/bin/env python3
"""Translator step of C08 (and of the guards used by C10/C11): reads
primitiv/core/device.cc, primitiv/core/device.h and
primitiv/devices/{naive,eigen}/device.h of the working tree (env VERIF_REPO,
default /repo) and emits lean/PrimitivModel/Gen/DeviceFront.lean:

  * `entries`: for every member function of `Device` that device.cc defines
    (the function-generating macros DEV_FW_X, DEV_BW_X, ... are expanded first),
    its access level and the list of its statements in textual order,
    classified as
        check x        `CHECK_DEVICE(x);`
        guard c        `if (c) PRIMITIV_THROW_ERROR(...)`   (c = condition text)
        local t        a declaration `T v = e;` / `T v(e);`
        alloc e        `Tensor y = new_raw_tensor(e);`      (e = output shape)
        handle         `... = new_handle(shape, &allocated_size);`
        impl f a       call of the virtual `f_impl(a)`      (a = argument text)
        call f a       call of another non-virtual member of Device
        loopBegin h .. loopEnd                 `for (h) { .. }`
        branchBegin c .. branchElse .. branchEnd   `if (c) { .. } else { .. }`
        ret e          `return e;`
        other t        anything else (no theorem can discharge it)
  * `deviceVirtuals`: the member functions device.h declares `virtual`;
  * `deviceMembers`: (name, access) of every member function declared in device.h;
  * `naiveOverrides`, `eigenOverrides`: the member functions the two CPU
    backends declare with `override`.

Condition and expression texts are normalised (comments removed, white space
collapsed to single blanks, no blank after `(`/before `)`), so the output does
not depend on line breaks or indentation.
Pure Python 3 standard library.  `python3 translate/device_front.py [--check-golden] [--stdout]`.
"""
import os, re, sys

VERIF = os.path.dirname(os.path.dirname(os.path.abspath(__file__)))
OUT = os.path.join(VERIF, "lean", "PrimitivModel", "Gen", "DeviceFront.lean")
GOLDEN = os.path.join(VERIF, "translate", "golden", "DeviceFront.lean")


class TranslateError(Exception):
    pass


def repo():
    return os.environ.get("VERIF_REPO", "/repo")


def strip_comments(src):
    src = re.sub(r"/\*.*?\*/", " ", src, flags=re.S)
    src = re.sub(r"//[^\n]*", " ", src)
    return src


def norm(t):
    t = re.sub(r"\s+", " ", t).strip()
    t = re.sub(r"\(\s+", "(", t)
    t = re.sub(r"\s+\)", ")", t)
    t = re.sub(r"\s+,", ",", t)
    t = re.sub(r"\s*<<\s*", " << ", t)
    return t


def match_close(src, i, op="(", cl=")"):
    """index of the bracket closing the one at src[i]"""
    depth = 0
    k = i
    while k < len(src):
        c = src[k]
        if c == '"':
            k += 1
            while k < len(src) and src[k] != '"':
                if src[k] == "\\":
                    k += 1
                k += 1
        elif c == op:
            depth += 1
        elif c == cl:
            depth -= 1
            if depth == 0:
                return k
        k += 1
    raise TranslateError("unbalanced %s at %d" % (op, i))


def split_args(s):
    out, depth, cur = [], 0, ""
    for c in s:
        if c in "(<[{":
            depth += 1
        elif c in ")>]}":
            depth -= 1
        if c == "," and depth == 0:
            out.append(cur.strip())
            cur = ""
        else:
            cur += c
    out.append(cur.strip())
    return out


# ------------------------------------------------------------------ macros
def collect_macros(src):
    """function-like macros of the file: name -> (params, body); returns the
    source with all preprocessor lines removed"""
    macros = {}
    lines = src.split("\n")
    out = []
    i = 0
    while i < len(lines):
        l = lines[i]
        if l.lstrip().startswith("#"):
            full = l
            while full.rstrip().endswith("\\") and i + 1 < len(lines):
                i += 1
                full = full.rstrip()[:-1] + "\n" + lines[i]
            m = re.match(r"\s*#\s*define\s+(\w+)\(([^)]*)\)\s*(.*)", full, flags=re.S)
            if m:
                macros[m.group(1)] = ([p.strip() for p in m.group(2).split(",") if p.strip()], m.group(3))
            i += 1
            continue
        out.append(l)
        i += 1
    return macros, "\n".join(out)


def expand_macro(params, body, args):
    if len(params) != len(args):
        raise TranslateError("macro arity")
    res = body
    for p, a in zip(params, args):
        res = re.sub(r"#\s*%s\b" % re.escape(p), '"%s"' % a, res.replace("##", "\x00"))
        res = res.replace("\x00", "##")
    # token pasting first (so that `name##_fw` becomes one identifier)
    for p, a in zip(params, args):
        res = re.sub(r"\b%s\s*##\s*" % re.escape(p), a + "##", res)
        res = re.sub(r"\s*##\s*%s\b" % re.escape(p), "##" + a, res)
    res = res.replace("##", "")
    for p, a in zip(params, args):
        res = re.sub(r"(?<![\w\"])%s(?![\w\"])" % re.escape(p), a, res)
    return res


GENERATORS = re.compile(r"^\s*(DEV_\w+)\s*\(", flags=re.M)


def expand_generators(src, macros):
    """expand the invocations of the function-generating macros at file scope"""
    out, pos = "", 0
    while True:
        m = GENERATORS.search(src, pos)
        if not m:
            out += src[pos:]
            break
        name = m.group(1)
        if name not in macros:
            raise TranslateError("unknown generator macro " + name)
        op = m.end() - 1
        cl = match_close(src, op)
        args = split_args(src[op + 1:cl])
        out += src[pos:m.start()] + expand_macro(macros[name][0], macros[name][1], args) + "\n"
        pos = cl + 1
        while pos < len(src) and src[pos] in " \t;":
            pos += 1
    return out


# --------------------------------------------------------------- functions
FUNC = re.compile(r"([\w:<>\s\*&]+?)\bDevice::(\w+)\s*\(")


def functions(src):
    """[(name, body text)] of the member functions of Device defined in src"""
    res, pos = [], 0
    while True:
        m = FUNC.search(src, pos)
        if not m:
            break
        op = m.end() - 1
        cl = match_close(src, op)
        k = cl + 1
        while k < len(src) and src[k] in " \t\n":
            k += 1
        if k < len(src) and src[k] == "{":
            end = match_close(src, k, "{", "}")
            res.append((m.group(2), src[k + 1:end]))
            pos = end + 1
        else:
            pos = cl + 1
    return res


def statements(body):
    """split a block into top-level statements"""
    out, i, n = [], 0, len(body)
    while i < n:
        while i < n and body[i] in " \t\n;":
            i += 1
        if i >= n:
            break
        m = re.match(r"(if|for|while)\s*\(", body[i:])
        if m:
            op = i + m.end() - 1
            cl = match_close(body, op)
            k = cl + 1
            while k < n and body[k] in " \t\n":
                k += 1
            if k < n and body[k] == "{":
                end = match_close(body, k, "{", "}")
                inner = body[k + 1:end]
                j = end + 1
            else:
                end = find_semicolon(body, k)
                inner = body[k:end]
                j = end + 1
            # else branch
            k2 = j
            while k2 < n and body[k2] in " \t\n":
                k2 += 1
            els = None
            if body[k2:k2 + 4] == "else" and not (body[k2 + 4:k2 + 5].isalnum() or body[k2 + 4:k2 + 5] == "_"):
                k3 = k2 + 4
                while k3 < n and body[k3] in " \t\n":
                    k3 += 1
                if body[k3] == "{":
                    e2 = match_close(body, k3, "{", "}")
                    els = body[k3 + 1:e2]
                    j = e2 + 1
                else:
                    e2 = find_semicolon(body, k3)
                    els = body[k3:e2]
                    j = e2 + 1
            out.append((m.group(1), body[op + 1:cl], inner, els))
            i = j
            continue
        end = find_semicolon(body, i)
        out.append(("stmt", body[i:end], None, None))
        i = end + 1
    return out


def find_semicolon(s, i):
    depth = 0
    k = i
    while k < len(s):
        c = s[k]
        if c == '"':
            k += 1
            while k < len(s) and s[k] != '"':
                if s[k] == "\\":
                    k += 1
                k += 1
        elif c in "({[":
            depth += 1
        elif c in ")}]":
            depth -= 1
        elif c == ";" and depth == 0:
            return k
        k += 1
    return len(s)


def classify(stmt, members):
    kind, a, inner, els = stmt
    if kind == "if":
        body = norm(inner)
        if body.startswith("PRIMITIV_THROW_ERROR") and els is None:
            return ("guard", norm(a))
        thn = [classify(s, members) for s in statements(inner)]
        el = [classify(s, members) for s in statements(els)] if els is not None else []
        return ("branch", norm(a), thn, el)
    if kind in ("for", "while"):
        return ("loop", norm(a), [classify(s, members) for s in statements(inner)])
    t = norm(a)
    m = re.match(r"^CHECK_DEVICE\((.*)\)$", t)
    if m:
        return ("check", m.group(1))
    m = re.match(r"^return\b\s*(.*)$", t)
    if m:
        rest = m.group(1)
        c = re.match(r"^(\w+)\((.*)\)$", rest)
        if c and c.group(1).endswith("_impl"):
            return ("retimpl", c.group(1), c.group(2))
        return ("ret", rest)
    m = re.match(r"^Tensor (\w+) = new_raw_tensor\((.*)\)$", t)
    if m:
        return ("alloc", m.group(2))
    if re.search(r"\bnew_handle\(", t):
        return ("handle",)
    m = re.match(r"^(\w+)\((.*)\)$", t)
    if m:
        if m.group(1).endswith("_impl"):
            return ("impl", m.group(1), m.group(2))
        if m.group(1) in members:
            return ("call", m.group(1), m.group(2))
        return ("other", t)
    if re.match(r"^(const\s+)?[\w:<>]+(\s*[&\*])?\s+[&\*]?\w+(\s*=|\s*\(|$)", t) or re.match(r"^(const\s+)?[\w:]+<.*>\s+\w+", t):
        return ("local", t)
    m = re.match(r"^(\w+)\.(reserve|emplace_back|push_back)\((.*)\)$", t)
    if m:
        return ("local", t)
    return ("other", t)


# ------------------------------------------------------------------ headers
def class_members(hdr, cls):
    """[(name, access, virtual?, override?)] of the member functions declared in class `cls`"""
    src = strip_comments(hdr)
    m = re.search(r"\bclass\s+%s\b[^;{]*\{" % cls, src)
    if not m:
        raise TranslateError("class %s not found" % cls)
    end = match_close(src, m.end() - 1, "{", "}")
    body = src[m.end():end]
    # remove inline bodies
    flat, i = "", 0
    while i < len(body):
        if body[i] == "{":
            e = match_close(body, i, "{", "}")
            flat += ";"
            i = e + 1
        else:
            flat += body[i]
            i += 1
    access = "private"
    res = []
    for piece in re.split(r";", flat):
        p = piece
        while True:
            a = re.match(r"\s*(public|protected|private)\s*:", p)
            if not a:
                break
            access = a.group(1)
            p = p[a.end():]
        p = norm(p)
        if not p or "(" not in p or p.startswith("friend") or p.startswith("using") or p.startswith("template"):
            continue
        head = p[:p.index("(")]
        nm = re.search(r"(~?\w+)\s*$", head)
        if not nm:
            continue
        name = nm.group(1)
        if name in ("operator", "Device", cls, "explicit") or head.strip().startswith("operator"):
            if name == cls or name == "Device":
                continue
        tail = p[match_close(p, p.index("(")) + 1:] if "(" in p else ""
        res.append((name, access, bool(re.match(r"^\s*virtual\b", p)), "override" in tail, "= delete" in tail))
    return res


# ---------------------------------------------------------------- emission
def lstr(s):
    return '"' + s.replace("\\", "\\\\").replace('"', '\\"') + '"'


def emit_stmt(s):
    k = s[0]
    if k == "check":
        return ".check %s" % lstr(s[1])
    if k == "guard":
        return ".guard %s" % lstr(s[1])
    if k == "local":
        return ".local %s" % lstr(s[1])
    if k == "alloc":
        return ".alloc %s" % lstr(s[1])
    if k == "handle":
        return ".handle"
    if k == "impl":
        return ".impl %s %s" % (lstr(s[1]), lstr(s[2]))
    if k == "retimpl":
        return ".retImpl %s %s" % (lstr(s[1]), lstr(s[2]))
    if k == "call":
        return ".call %s %s" % (lstr(s[1]), lstr(s[2]))
    if k == "ret":
        return ".ret %s" % lstr(s[1])
    return ".other %s" % lstr(s[1])


def flatten(stmts):
    """loops and branches as bracketing marker statements (keeps `Stmt` a flat
    enumeration, so that equality is decidable by `deriving`)"""
    out = []
    for s in stmts:
        if s[0] == "loop":
            out.append(".loopBegin %s" % lstr(s[1]))
            out += flatten(s[2])
            out.append(".loopEnd")
        elif s[0] == "branch":
            out.append(".branchBegin %s" % lstr(s[1]))
            out += flatten(s[2])
            out.append(".branchElse")
            out += flatten(s[3])
            out.append(".branchEnd")
        else:
            out.append(emit_stmt(s))
    return out


def translate():
    r = repo()
    cc = strip_comments(open(os.path.join(r, "primitiv/core/device.cc")).read())
    hdr = open(os.path.join(r, "primitiv/core/device.h")).read()
    macros, body = collect_macros(cc)
    # CHECK_DEVICE stays a macro call (it is classified, not expanded)
    body = expand_generators(body, macros)
    members = class_members(hdr, "Device")
    names = {m[0] for m in members}
    access = {}
    for (n, a, v, o, d) in members:
        access.setdefault(n, a)
    entries = []
    for name, fbody in functions(body):
        stmts = [classify(s, names) for s in statements(fbody)]
        entries.append((name, access.get(name, "undeclared"), stmts))
    virtuals = sorted({n for (n, a, v, o, d) in members if v})
    naive = class_members(open(os.path.join(r, "primitiv/devices/naive/device.h")).read(), "Naive")
    eigen = class_members(open(os.path.join(r, "primitiv/devices/eigen/device.h")).read(), "Eigen")
    return {
        "entries": entries,
        "virtuals": virtuals,
        "members": sorted({(n, a) for (n, a, v, o, d) in members if not d}),
        "naive": sorted({n for (n, a, v, o, d) in naive if o}),
        "eigen": sorted({n for (n, a, v, o, d) in eigen if o}),
        "naive_all": sorted({n for (n, a, v, o, d) in naive if not d and n not in ("Naive",)}),
        "eigen_all": sorted({n for (n, a, v, o, d) in eigen if not d and n not in ("Eigen",)}),
    }


def render(t):
    L = []
    L.append("/- GENERATED by translate/device_front.py from primitiv/core/device.{h,cc} and")
    L.append("   primitiv/devices/{naive,eigen}/device.h — do not edit. -/")
    L.append("namespace Primitiv.Gen.DeviceFront")
    L.append("")
    L.append("inductive Stmt where")
    L.append("  | check (arg : String)")
    L.append("  | guard (cond : String)")
    L.append("  | local (text : String)")
    L.append("  | alloc (shape : String)")
    L.append("  | handle")
    L.append("  | impl (fn args : String)")
    L.append("  | retImpl (fn args : String)")
    L.append("  | call (fn args : String)")
    L.append("  | ret (expr : String)")
    L.append("  | loopBegin (head : String)")
    L.append("  | loopEnd")
    L.append("  | branchBegin (cond : String)")
    L.append("  | branchElse")
    L.append("  | branchEnd")
    L.append("  | other (text : String)")
    L.append("deriving Repr, Inhabited, DecidableEq")
    L.append("")
    L.append("structure Entry where")
    L.append("  name : String")
    L.append("  access : String")
    L.append("  stmts : List Stmt")
    L.append("deriving Repr, Inhabited, DecidableEq")
    L.append("")
    for i, (name, acc, stmts) in enumerate(t["entries"]):
        L.append("def e%d : Entry := ⟨%s, %s, [" % (i, lstr(name), lstr(acc)))
        L.append(",\n".join("    " + x for x in flatten(stmts)))
        L.append("  ]⟩")
    L.append("")
    L.append("def entries : List Entry := [%s]" % ", ".join("e%d" % i for i in range(len(t["entries"]))))
    L.append("")
    def strlist(name, l):
        L.append("def %s : List String := [" % name)
        for k in range(0, len(l), 6):
            L.append("  " + ", ".join(lstr(x) for x in l[k:k + 6]) + ("," if k + 6 < len(l) else ""))
        L.append("]")
        L.append("")
    strlist("deviceVirtuals", t["virtuals"])
    L.append("def deviceMembers : List (String × String) := [")
    mem = t["members"]
    for k in range(0, len(mem), 4):
        L.append("  " + ", ".join("(%s, %s)" % (lstr(n), lstr(a)) for n, a in mem[k:k + 4]) + ("," if k + 4 < len(mem) else ""))
    L.append("]")
    L.append("")
    strlist("naiveOverrides", t["naive"])
    strlist("eigenOverrides", t["eigen"])
    strlist("naiveDeclared", t["naive_all"])
    strlist("eigenDeclared", t["eigen_all"])
    L.append("end Primitiv.Gen.DeviceFront")
    return "\n".join(L) + "\n"


def generate(out=None):
    txt = render(translate())
    out = out or OUT
    os.makedirs(os.path.dirname(out), exist_ok=True)
    if not os.path.exists(out) or open(out).read() != txt:
        with open(out, "w") as f:
            f.write(txt)
    return out


if __name__ == "__main__":
    if "--stdout" in sys.argv:
        sys.stdout.write(render(translate()))
    elif "--check-golden" in sys.argv:
        a, b = render(translate()), open(GOLDEN).read()
        print("golden matches" if a == b else "golden DIFFERS")
        sys.exit(0 if a == b else 1)
    elif "--write-golden" in sys.argv:
        os.makedirs(os.path.dirname(GOLDEN), exist_ok=True)
        open(GOLDEN, "w").write(render(translate()))
    else:
        print(generate())
