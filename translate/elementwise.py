#!/usr/bin/env python3
"""Translator of the elementwise kernel formulas of both CPU backends.

Source: the macro invocations

    CPUDEV_{FW_X,BW_X,FW_X_CONST,BW_X_CONST,FW_X_SCALAR,FW_AB}(name, op)      devices/naive/ops/*.cc
    EIGEN_DEV_{FW_X,BW_X,FW_X_CONST,BW_X_CONST,FW_X_SCALAR,FW_AB}(name, op)   devices/eigen/ops/*.cc

of the working tree `$VERIF_REPO` (default /repo).  The `op` argument is parsed
with a small recursive-descent parser for the C++ expression subset the
formulas use and is emitted

  * as a Lean definition over an abstract scalar interface (`Fns α` + the
    operation classes), one definition per kernel and backend, and
  * as a token-normalised form (products/sums flattened and sorted, negation
    pulled out of products, `std::f(e)` / `e.f()` unified, variables renamed to
    x y gy k a b) for the syntactic comparison of the two backends.

Anything outside the subset becomes `F.unsupported "<text>"`; nothing is guessed.
Pure Python 3 standard library.  `generate()` writes
lean/PrimitivModel/Gen/Elementwise.lean (only when the text changed).
"""
import os, re, sys, glob

VERIF = os.path.dirname(os.path.dirname(os.path.abspath(__file__)))
OUT = os.path.join(VERIF, "lean", "PrimitivModel", "Gen", "Elementwise.lean")
GOLDEN = os.path.join(VERIF, "translate", "golden", "Elementwise.lean")


def repo():
    return os.environ.get("VERIF_REPO", "/repo")


# ----------------------------------------------------------------- tokenizer
TOK_RE = re.compile(r"""
    (?P<num>(?:\d+\.\d*|\.\d+|\d+)(?:[eE][+-]?\d+)?[fF]?)
  | (?P<id>(?:::)?[A-Za-z_]\w*(?:::[A-Za-z_]\w*)*)
  | (?P<op><=|>=|==|!=|&&|\|\||[-+*/()<>?:,.\[\]!])
  | (?P<ws>\s+)
""", re.X)


class Unsupported(Exception):
    pass


def tokenize(s):
    out, i = [], 0
    while i < len(s):
        m = TOK_RE.match(s, i)
        if not m:
            raise Unsupported("character %r" % s[i])
        i = m.end()
        if m.lastgroup == "ws":
            continue
        out.append((m.lastgroup, m.group(m.lastgroup)))
    return out


# -------------------------------------------------------------------- parser
# AST: ("num", text) ("id", name) ("un", op, e) ("bin", op, l, r) ("tern", c, a, b)
#      ("call", fname, [args]) ("meth", recv, name, [args]) ("idx", e, i)
class Parser:
    def __init__(self, toks):
        self.t, self.i = toks, 0

    def peek(self):
        return self.t[self.i] if self.i < len(self.t) else ("eof", "")

    def eat(self, val=None):
        k, v = self.peek()
        if val is not None and v != val:
            raise Unsupported("expected %r, found %r" % (val, v))
        self.i += 1
        return k, v

    def parse(self):
        e = self.ternary()
        if self.peek()[0] != "eof":
            raise Unsupported("trailing token %r" % (self.peek()[1],))
        return e

    def ternary(self):
        c = self.binary(0)
        if self.peek()[1] == "?":
            self.eat("?")
            a = self.ternary()
            self.eat(":")
            b = self.ternary()
            return ("tern", c, a, b)
        return c

    LEVELS = [["||"], ["&&"], ["==", "!="], ["<", ">", "<=", ">="], ["+", "-"], ["*", "/"]]

    def binary(self, lvl):
        if lvl == len(self.LEVELS):
            return self.unary()
        l = self.binary(lvl + 1)
        while self.peek()[0] == "op" and self.peek()[1] in self.LEVELS[lvl]:
            op = self.eat()[1]
            r = self.binary(lvl + 1)
            l = ("bin", op, l, r)
        return l

    def unary(self):
        k, v = self.peek()
        if k == "op" and v in ("-", "+", "!", "*"):
            self.eat()
            return ("un", v, self.unary())
        return self.postfix()

    def args(self):
        self.eat("(")
        a = []
        if self.peek()[1] != ")":
            a.append(self.ternary())
            while self.peek()[1] == ",":
                self.eat(",")
                a.append(self.ternary())
        self.eat(")")
        return a

    def postfix(self):
        e = self.primary()
        while True:
            v = self.peek()[1]
            if v == "(" and e[0] == "id":
                e = ("call", e[1], self.args())
            elif v == "[":
                self.eat("[")
                i = self.ternary()
                self.eat("]")
                e = ("idx", e, i)
            elif v == ".":
                self.eat(".")
                k, name = self.eat()
                if k != "id":
                    raise Unsupported("method name %r" % name)
                e = ("meth", e, name, self.args())
            else:
                return e

    def primary(self):
        k, v = self.eat()
        if k == "num":
            return ("num", v)
        if k == "id":
            return ("id", v)
        if v == "(":
            e = self.ternary()
            self.eat(")")
            return e
        raise Unsupported("token %r" % v)


# ------------------------------------------------------ AST -> scalar IR
# IR: ("var", n) ("lit", m, e) ("neg", a) ("add"|"sub"|"mul"|"div", a, b)
#     ("cmp", op, a, b) [boolean]  ("ite", c, a, b)  ("fn", name, [args])  ("b2n", c)
KINDS = {
    "FW_X": ["x"], "BW_X": ["x", "y", "gy"], "FW_X_CONST": ["x", "k"], "BW_X_CONST": ["x", "y", "gy", "k"],
    "FW_X_SCALAR": ["x", "k"], "FW_AB": ["a", "b"],
}
NAIVE_VARS = {
    "FW_X": {"src[i]": "x"},
    "BW_X": {"px[i]": "x", "py[i]": "y", "pgy[i]": "gy"},
    "FW_X_CONST": {"src[i]": "x", "k": "k"},
    "BW_X_CONST": {"px[i]": "x", "py[i]": "y", "pgy[i]": "gy", "k": "k"},
    "FW_X_SCALAR": {"src_x[i]": "x", "*src_k": "k"},
    "FW_AB": {"src_a[i]": "a", "src_b[i]": "b"},
}
STD_FNS = {"std::exp": "exp", "std::log": "log", "std::tanh": "tanh", "std::sqrt": "sqrt", "std::sin": "sin",
           "std::cos": "cos", "std::tan": "tan", "std::abs": "abs", "std::fabs": "abs", "std::pow": "pow",
           "::Eigen::pow": "pow", "Eigen::pow": "pow"}
ARITY = {"exp": 1, "log": 1, "tanh": 1, "sqrt": 1, "sin": 1, "cos": 1, "tan": 1, "abs": 1, "pow": 2, "sign": 1}
METHODS = {"exp": "exp", "log": "log", "tanh": "tanh", "sqrt": "sqrt", "sin": "sin", "cos": "cos", "tan": "tan",
           "abs": "abs", "sign": "sign"}


def lit_of(text):
    t = text.rstrip("fF")
    m = re.match(r"^(\d*)\.?(\d*)(?:[eE]([+-]?\d+))?$", t)
    if not m:
        raise Unsupported("literal " + text)
    ip, fp, ex = m.group(1), m.group(2), int(m.group(3) or 0)
    mant = int((ip + fp) or "0")
    e10 = len(fp) - ex
    if e10 < 0:
        mant *= 10 ** (-e10)
        e10 = 0
    while e10 > 0 and mant % 10 == 0:
        mant //= 10
        e10 -= 1
    return ("lit", mant, e10)


class ToIR:
    def __init__(self, backend, kind):
        self.backend, self.kind = backend, kind

    def var(self, ast):
        """A source-level scalar operand of this macro kind, or None."""
        if self.backend == "naive":
            tbl = NAIVE_VARS[self.kind]
            if ast[0] == "idx" and ast[1][0] == "id" and ast[2] == ("id", "i"):
                return tbl.get(ast[1][1] + "[i]")
            if ast[0] == "un" and ast[1] == "*" and ast[2][0] == "id":
                return tbl.get("*" + ast[2][1])
            if ast[0] == "id":
                return tbl.get(ast[1])
            return None
        if ast[0] == "id" and ast[1] in KINDS[self.kind]:
            return ast[1]
        return None

    def num(self, ast):
        """arithmetic value"""
        ty, e = self.go(ast)
        return ("b2n", e) if ty == "bool" else e

    def boolean(self, ast):
        ty, e = self.go(ast)
        if ty != "bool":
            raise Unsupported("a number used as a condition")
        return e

    def go(self, ast):
        v = self.var(ast)
        if v:
            return "num", ("var", v)
        k = ast[0]
        if k == "num":
            return "num", lit_of(ast[1])
        if k == "un":
            if ast[1] == "-":
                return "num", ("neg", self.num(ast[2]))
            if ast[1] == "+":
                return "num", self.num(ast[2])
            raise Unsupported("unary %s" % ast[1])
        if k == "bin":
            op = ast[1]
            if op in ("+", "-", "*", "/"):
                return "num", ({"+": "add", "-": "sub", "*": "mul", "/": "div"}[op], self.num(ast[2]), self.num(ast[3]))
            if op in ("<", ">", "<=", ">="):
                return "bool", ("cmp", op, self.num(ast[2]), self.num(ast[3]))
            raise Unsupported("operator %s" % op)
        if k == "tern":
            return "num", ("ite", self.boolean(ast[1]), self.num(ast[2]), self.num(ast[3]))
        if k == "call":
            fn = STD_FNS.get(ast[1])
            if not fn or len(ast[2]) != ARITY[fn]:
                raise Unsupported("call of %s/%d" % (ast[1], len(ast[2])))
            return "num", ("fn", fn, [self.num(a) for a in ast[2]])
        if k == "meth":
            recv, name, args = ast[1], ast[2], ast[3]
            if self.backend != "eigen":
                raise Unsupported("method call .%s()" % name)
            if name == "select" and len(args) == 2:
                return "num", ("ite", self.boolean(recv), self.num(args[0]), self.num(args[1]))
            if name == "pow" and len(args) == 1:
                return "num", ("fn", "pow", [self.num(recv), self.num(args[0])])
            if name in METHODS and not args:
                return "num", ("fn", METHODS[name], [self.num(recv)])
            raise Unsupported("method .%s/%d" % (name, len(args)))
        raise Unsupported("expression form %s" % k)


# ------------------------------------------------------------ IR -> Lean
def lean(e):
    k = e[0]
    if k == "var":
        return e[1]
    if k == "lit":
        return "F.lit %d %d" % (e[1], e[2])
    if k == "neg":
        return "-" + atom(e[1])
    if k in ("add", "sub", "mul", "div"):
        return "%s %s %s" % (atom(e[1]), {"add": "+", "sub": "-", "mul": "*", "div": "/"}[k], atom(e[2]))
    if k == "ite":
        return "if %s then %s else %s" % (lean(e[1]), lean(e[2]), lean(e[3]))
    if k == "cmp":
        return "%s %s %s" % (atom(e[2]), {"<": "<", ">": ">", "<=": "≤", ">=": "≥"}[e[1]], atom(e[3]))
    if k == "b2n":
        return "if %s then F.lit 1 0 else F.lit 0 0" % lean(e[1])
    if k == "fn":
        return "F.%s %s" % (e[1], " ".join(atom(a) for a in e[2]))
    raise AssertionError(k)


def atom(e):
    return lean(e) if e[0] == "var" else "(" + lean(e) + ")"


# ---------------------------------------------- IR -> token-normalised form
def nf(e):
    """(sign, text): negation is pulled out of products and quotients."""
    k = e[0]
    if k == "var":
        return 1, e[1]
    if k == "lit":
        return 1, ("%d" % e[1] if e[2] == 0 else "%de-%d" % (e[1], e[2]))
    if k == "neg":
        s, t = nf(e[1])
        return -s, t
    if k == "mul":
        sg, fs = 1, []
        for c in flat(e, "mul"):
            s, t = nf(c)
            sg *= s
            fs.append(t)
        return sg, "(* " + " ".join(sorted(fs)) + ")"
    if k == "div":
        s1, a = nf(e[1])
        s2, b = nf(e[2])
        return s1 * s2, "(/ %s %s)" % (a, b)
    if k == "add":
        return 1, "(+ " + " ".join(sorted(signed(c) for c in flat(e, "add"))) + ")"
    if k == "sub":
        return 1, "(- %s %s)" % (signed(e[1]), signed(e[2]))
    if k == "ite":
        return 1, "(if %s %s %s)" % (signed(e[1]), signed(e[2]), signed(e[3]))
    if k == "cmp":
        return 1, "(%s %s %s)" % (e[1], signed(e[2]), signed(e[3]))
    if k == "b2n":
        return 1, "(b2n %s)" % signed(e[1])
    if k == "fn":
        return 1, "(%s %s)" % (e[1], " ".join(signed(a) for a in e[2]))
    raise AssertionError(k)


def signed(e):
    s, t = nf(e)
    return t if s > 0 else "(neg %s)" % t


def flat(e, k):
    return flat(e[1], k) + flat(e[2], k) if e[0] == k else [e]


# ------------------------------------------------------------- the sources
MACRO_RE = re.compile(r"\b(CPUDEV|EIGEN_DEV)_(FW_X_CONST|BW_X_CONST|FW_X_SCALAR|FW_X|BW_X|FW_AB)\s*\(")


def strip_comments(src):
    src = re.sub(r"/\*.*?\*/", " ", src, flags=re.S)
    return re.sub(r"//[^\n]*", " ", src)


def invocations(path):
    """[(prefix, kind, name, op text)] of one source file; #define lines are skipped."""
    src = strip_comments(open(path).read())
    src = "\n".join("" if l.lstrip().startswith("#") else l for l in src.split("\n"))
    out = []
    for m in MACRO_RE.finditer(src):
        i, depth = m.end(), 1
        while i < len(src) and depth:
            depth += {"(": 1, ")": -1}.get(src[i], 0)
            i += 1
        body = src[m.end():i - 1]
        # split at the first top-level comma
        d, cut = 0, None
        for j, ch in enumerate(body):
            d += {"(": 1, ")": -1}.get(ch, 0)
            if ch == "," and d == 0:
                cut = j
                break
        if cut is None:
            continue
        out.append((m.group(1), m.group(2), body[:cut].strip(), " ".join(body[cut + 1:].split())))
    return out


def collect():
    """{(name, kind): {backend: (text, ir or None, why)}} in a deterministic order."""
    table = {}
    for backend, prefix in (("naive", "CPUDEV"), ("eigen", "EIGEN_DEV")):
        for path in sorted(glob.glob(os.path.join(repo(), "primitiv", "devices", backend, "ops", "*.cc"))):
            for pfx, kind, name, text in invocations(path):
                if pfx != prefix or not re.match(r"^[A-Za-z_]\w*$", name):
                    continue
                try:
                    ir, why = ToIR(backend, kind).num(Parser(tokenize(text)).parse()), None
                except Unsupported as ex:
                    ir, why = None, str(ex)
                table.setdefault((name, kind), {})[backend] = (text, ir, why)
    return table


HEADER = '''/-
GENERATED by /verif/translate/elementwise.py from the macro invocations of
primitiv/devices/{naive,eigen}/ops/*.cc — do not edit.  One definition per
elementwise kernel and backend over the abstract scalar interface `Fns α`;
executed at `Float`, `Int` and dual numbers by the driver, interpreted over `ℝ`
in Props.  Core Lean only.
-/
namespace Primitiv.Gen.Elementwise

/-- The named scalar functions a formula may use.  `lit m e` is the decimal
literal `m / 10^e`; `unsupported s` stands for source text outside the
translated subset. -/
structure Fns (α : Type) where
  lit : Nat → Nat → α
  exp : α → α
  log : α → α
  tanh : α → α
  sqrt : α → α
  sin : α → α
  cos : α → α
  tan : α → α
  abs : α → α
  sign : α → α
  pow : α → α → α
  unsupported : String → α

set_option linter.unusedVariables false

section
variable {α : Type} [Add α] [Sub α] [Mul α] [Div α] [Neg α] [LT α] [LE α] [DecidableLT α] [DecidableLE α]

'''

SIG = {"FW_X": "(x : α)", "BW_X": "(x y gy : α)", "FW_X_CONST": "(x k : α)", "BW_X_CONST": "(x y gy k : α)",
       "FW_X_SCALAR": "(x k : α)", "FW_AB": "(a b : α)"}
FUNTY = {"FW_X": "α → α", "BW_X": "α → α → α → α", "FW_X_CONST": "α → α → α", "BW_X_CONST": "α → α → α → α → α",
         "FW_X_SCALAR": "α → α → α", "FW_AB": "α → α → α"}
SUFFIX = {"FW_X": "fw", "BW_X": "bw", "FW_X_CONST": "fw", "BW_X_CONST": "bw", "FW_X_SCALAR": "fw", "FW_AB": "fw"}
TABLE = {"FW_X": "fwX", "BW_X": "bwX", "FW_X_CONST": "fwXConst", "BW_X_CONST": "bwXConst", "FW_X_SCALAR": "fwXScalar",
         "FW_AB": "fwAB"}


def lstr(s):
    return '"' + s.replace("\\", "\\\\").replace('"', '\\"') + '"'


def render(table):
    out = [HEADER]
    keys = sorted(table.keys())
    for (name, kind) in keys:
        for backend in ("naive", "eigen"):
            if backend not in table[(name, kind)]:
                continue
            text, ir, why = table[(name, kind)][backend]
            body = lean(ir) if ir is not None else "F.unsupported " + lstr(text)
            out.append("/-- %s %s_%s: `%s`%s -/\n" % (backend, name, SUFFIX[kind], text,
                                                      "" if ir is not None else "  (unsupported: %s)" % why))
            out.append("def %s_%s_%s (F : Fns α) %s : α :=\n  %s\n\n" % (backend, name, SUFFIX[kind], SIG[kind], body))
    # dispatch tables for the driver
    for kind in ("FW_X", "BW_X", "FW_X_CONST", "BW_X_CONST", "FW_X_SCALAR", "FW_AB"):
        out.append("/-- (backend, kernel name) ↦ formula, macro kind %s -/\n" % kind)
        out.append("def %s (F : Fns α) : String → String → Option (%s)\n" % (TABLE[kind], FUNTY[kind]))
        for (name, k2) in keys:
            if k2 != kind:
                continue
            for backend in ("naive", "eigen"):
                if backend in table[(name, k2)]:
                    out.append('  | "%s", "%s" => some (%s_%s_%s F)\n' % (backend, name, backend, name, SUFFIX[kind]))
        out.append("  | _, _ => none\n\n")
    out.append("end\n\n")
    # normal forms
    out.append("/-- (kernel, naive normal form, eigen normal form); \"-\" = absent, \"?\" = unsupported -/\n")
    out.append("def normalForms : List (String × String × String) := [\n")
    rows, equal, differ, unsup = [], [], [], []
    for (name, kind) in keys:
        full = "%s_%s" % (name, SUFFIX[kind])
        forms = []
        for backend in ("naive", "eigen"):
            if backend not in table[(name, kind)]:
                forms.append("-")
            else:
                text, ir, why = table[(name, kind)][backend]
                forms.append(signed(ir) if ir is not None else "?")
                if ir is None:
                    unsup.append("%s_%s" % (backend, full))
        rows.append("  (%s, %s, %s)" % (lstr(full), lstr(forms[0]), lstr(forms[1])))
        (equal if forms[0] == forms[1] and forms[0] not in ("-", "?") else differ).append(full)
    out.append(",\n".join(rows) + "]\n\n")
    out.append("/-- kernels whose two formulas are equal after token normalisation -/\n")
    out.append("def syntacticallyEqual : List String := [%s]\n\n" % ", ".join(lstr(s) for s in equal))
    out.append("/-- kernels whose two formulas differ after normalisation (agreement needs a proof) -/\n")
    out.append("def syntacticallyDifferent : List String := [%s]\n\n" % ", ".join(lstr(s) for s in differ))
    out.append("/-- formulas outside the translated subset -/\n")
    out.append("def unsupportedFormulas : List String := [%s]\n\n" % ", ".join(lstr(s) for s in unsup))
    out.append("end Primitiv.Gen.Elementwise\n")
    return "".join(out)


def generate(out=OUT):
    """Regenerate the Lean file from the working tree; returns (path, changed, differs_from_golden)."""
    text = render(collect())
    old = open(out).read() if os.path.exists(out) else None
    if old != text:
        os.makedirs(os.path.dirname(out), exist_ok=True)
        tmp = out + ".tmp%d" % os.getpid()
        with open(tmp, "w") as f:
            f.write(text)
        os.replace(tmp, out)
    golden = open(GOLDEN).read() if os.path.exists(GOLDEN) else None
    return out, old != text, (golden is not None and golden != text)


# ----------------------------------------------------------------- self-test
SELFTEST = [
    ("naive", "FW_X", "std::tanh(src[i])", "F.tanh x"),
    ("naive", "BW_X", "py[i] * (1. - py[i]) * pgy[i]", "(y * ((F.lit 1 0) - y)) * gy"),
    ("eigen", "BW_X", "gy * y * (1. - y)", "(gy * y) * ((F.lit 1 0) - y)"),
    ("naive", "FW_X", ".5 + .5 * std::tanh(.5 * src[i])", "(F.lit 5 1) + ((F.lit 5 1) * (F.tanh ((F.lit 5 1) * x)))"),
    ("eigen", "FW_X", "(x > 0.).select(x + (1. + (-x).exp()).log(), (1. + x.exp()).log())",
     "if x > (F.lit 0 0) then x + (F.log ((F.lit 1 0) + (F.exp (-x)))) else F.log ((F.lit 1 0) + (F.exp x))"),
    ("naive", "FW_X", "src[i] > 0 ? src[i] + std::log(1 + std::exp(-src[i])) : std::log(1 + std::exp(src[i]))",
     "if x > (F.lit 0 0) then x + (F.log ((F.lit 1 0) + (F.exp (-x)))) else F.log ((F.lit 1 0) + (F.exp x))"),
    ("naive", "BW_X", "((px[i] > 0) - (px[i] < 0)) * pgy[i]",
     "((if x > (F.lit 0 0) then F.lit 1 0 else F.lit 0 0) - (if x < (F.lit 0 0) then F.lit 1 0 else F.lit 0 0)) * gy"),
    ("naive", "FW_X_SCALAR", "src_x[i] * *src_k", "x * k"),
    ("eigen", "FW_X_CONST", "::Eigen::pow(k, x)", "F.pow k x"),
    ("eigen", "FW_AB", "a.pow(b)", "F.pow a b"),
    ("naive", "FW_X", "src[i] + 1e-3f", "x + (F.lit 1 3)"),
    ("naive", "FW_X", "foo(src[i])", None),
    ("naive", "FW_X", "src[j]", None),
    ("naive", "FW_X", "x.exp()", None),
    ("eigen", "FW_X", "x.cwiseMax(0)", None),
    ("naive", "FW_X", "src[i] % 2", None),
]


def selftest():
    bad = []
    for backend, kind, text, want in SELFTEST:
        try:
            got = lean(ToIR(backend, kind).num(Parser(tokenize(text)).parse()))
        except Unsupported:
            got = None
        if got != want:
            bad.append((text, want, got))
    return bad


if __name__ == "__main__":
    bad = selftest()
    for b in bad:
        print("SELFTEST FAILED: %r\n   want %r\n   got  %r" % b)
    if "--golden" in sys.argv:
        os.makedirs(os.path.dirname(GOLDEN), exist_ok=True)
        open(GOLDEN, "w").write(render(collect()))
        print("golden written")
    p, changed, differs = generate()
    print(p, "changed" if changed else "unchanged", "DIFFERS FROM GOLDEN" if differs else "")
    sys.exit(1 if bad else 0)
