"""Translator of primitiv's operator table and function layer into a Lean data
table (lean/PrimitivModel/Gen/OpTable.lean).

Pure Python 3 stdlib.  Honours the environment variable VERIF_REPO (default
/repo) at the time `generate()` is called.

Sources read (for both settings of PRIMITIV_USE_CACHE):
  primitiv/core/operator_impl.h    operator classes (macros expanded)
  primitiv/core/operator_impl.cc   FWD_SHAPE / FORWARD / BACKWARD bodies, constructors
  primitiv/core/node_funcs.cc      public functions on Node
  primitiv/core/tensor_funcs.cc    public functions on Tensor
  primitiv/core/arithmetic.h       operator templates
  primitiv/contrib/functions.h     composite templates (a fixed list of names)
  primitiv/core/device.cc          device front-ends (functions returning Tensor)
  primitiv/core/tensor.cc          Tensor::reshape / Tensor::flatten

Pipeline: comments stripped, preprocessor directives interpreted
(#define/#undef of the file's own macros incl. variadic, `#` and `##`;
#ifdef/#ifndef/#else/#endif), tokens, a recursive-descent parser for the
expression / statement subset these files use, then every body is flattened
into three-address code (`Call`) grouped into a decision list (`Branch`).
Whatever the parser or the flattener does not recognise becomes an
`unsupported "<source text>"` entry; nothing is guessed.
"""
import os, re, sys

HERE = os.path.dirname(os.path.abspath(__file__))
VERIF = os.path.dirname(HERE)
OUT = os.path.join(VERIF, "lean", "PrimitivModel", "Gen", "OpTable.lean")
GOLDEN = os.path.join(HERE, "golden", "OpTable.lean")

# composite templates of contrib/functions.h that are translated (the others
# are container overloads that the line protocol of the funcs family does not use)
SHARED_NAMES = {"selu", "mean", "normalize", "zeros", "ones", "dropout",
                "zeros_tensor", "zeros_node", "ones_tensor", "ones_node"}


def repo():
    return os.environ.get("VERIF_REPO", "/repo")


# --------------------------------------------------------------------------
# lexical level

TOKEN_RE = re.compile(r"""
    (?P<ws>\s+)
  | (?P<num>(?:0[xX][0-9a-fA-F]+|(?:\d+\.\d*|\.\d+|\d+)(?:[eE][+-]?\d+)?)[uUlLfF]*)
  | (?P<id>[A-Za-z_]\w*)
  | (?P<str>R"\((?:.|\n)*?\)"|"(?:[^"\\\n]|\\.)*")
  | (?P<chr>'(?:[^'\\\n]|\\.)*')
  | (?P<punct>\.\.\.|::|->|<<=|>>=|<<|>>|<=|>=|==|!=|&&|\|\||\+=|-=|\*=|/=|%=|\+\+|--|\#\#|[-+*/%<>=!&|^~?:;,.(){}\[\]\#])
""", re.X)


class ParseError(Exception):
    pass


def strip_comments(src):
    out, i, n = [], 0, len(src)
    while i < n:
        c = src[i]
        if src.startswith("//", i):
            while i < n and src[i] != "\n":
                i += 1
        elif src.startswith("/*", i):
            j = src.find("*/", i + 2)
            j = n if j < 0 else j + 2
            out.append(" " + "\n" * src.count("\n", i, j))
            i = j
        elif src.startswith('R"(', i):
            j = src.find(')"', i)
            j = n if j < 0 else j + 2
            out.append(src[i:j]); i = j
        elif c == '"' or c == "'":
            j = i + 1
            while j < n and src[j] != c:
                j += 2 if src[j] == "\\" else 1
            out.append(src[i:j + 1]); i = j + 1
        else:
            out.append(c); i += 1
    return "".join(out)


def tokenize(text):
    toks, i, n = [], 0, len(text)
    while i < n:
        m = TOKEN_RE.match(text, i)
        if not m:
            raise ParseError("cannot tokenize at: " + text[i:i + 30])
        i = m.end()
        if m.lastgroup != "ws":
            toks.append(m.group(m.lastgroup))
    return toks


def is_id(t):
    return bool(re.match(r"[A-Za-z_]\w*$", t))


def is_num(t):
    return bool(re.match(r"(\d|\.\d)", t))


class Macro:
    def __init__(self, name, params, variadic, body):
        self.name, self.params, self.variadic, self.body = name, params, variadic, body


def expand(tokens, macros, hide=frozenset()):
    """Expand the function-like and object-like macros of `macros` in a token list."""
    out, i, n = [], 0, len(tokens)
    while i < n:
        t = tokens[i]
        m = macros.get(t) if t not in hide else None
        if m is None:
            out.append(t); i += 1; continue
        if m.params is None:
            out += expand(list(m.body), macros, hide | {t}); i += 1; continue
        if i + 1 >= n or tokens[i + 1] != "(":
            out.append(t); i += 1; continue
        # collect arguments
        j, depth, args, cur = i + 2, 1, [], []
        while j < n:
            u = tokens[j]
            if u == "(":
                depth += 1
            elif u == ")":
                depth -= 1
                if depth == 0:
                    break
            if u == "," and depth == 1:
                args.append(cur); cur = []
            else:
                cur.append(u)
            j += 1
        if j >= n:
            raise ParseError("unterminated macro invocation " + t)
        if cur or args:
            args.append(cur)
        np = len(m.params)
        if m.variadic:
            fixed, va = args[:np], args[np:]
            va_toks = []
            for k, a in enumerate(va):
                if k:
                    va_toks.append(",")
                va_toks += a
        else:
            fixed, va_toks = args, []
            if np == 0 and args == []:
                fixed = []
        if len(fixed) < np:
            fixed = fixed + [[] for _ in range(np - len(fixed))]
        if len(fixed) != np:
            raise ParseError("macro %s: %d arguments for %d parameters" % (t, len(fixed), np))
        raw = dict(zip(m.params, fixed))
        raw["__VA_ARGS__"] = va_toks
        exp = {k: expand(list(v), macros, hide) for k, v in raw.items()}
        body, res, k = m.body, [], 0
        while k < len(body):
            b = body[k]
            if b == "#" and k + 1 < len(body) and body[k + 1] in raw:
                res.append('"' + " ".join(raw[body[k + 1]]).replace('"', '\\"') + '"'); k += 2; continue
            if k + 1 < len(body) and body[k + 1] == "##":
                left = raw[b] if b in raw else [b]
                k += 2
                right = raw[body[k]] if body[k] in raw else [body[k]]
                k += 1
                pasted = list(left[:-1]) + [(left[-1] if left else "") + (right[0] if right else "")] + list(right[1:])
                while k < len(body) and body[k] == "##":
                    k += 1
                    right = raw[body[k]] if body[k] in raw else [body[k]]
                    k += 1
                    pasted = pasted[:-1] + [pasted[-1] + (right[0] if right else "")] + list(right[1:])
                res += pasted
                continue
            if b in exp:
                res += exp[b]
            else:
                res.append(b)
            k += 1
        out += expand(res, macros, hide | {t})
        i = j + 1
    return out


def preprocess(src, defined):
    """Returns the macro-expanded token list of a source file for the set of
    externally defined configuration macros `defined`."""
    src = strip_comments(src).replace("\\\n", " ")
    macros, out, buf = {}, [], []
    stack = []   # [taken_now, any_taken, parent_active]

    def active():
        return all(s[0] for s in stack)

    def flush():
        nonlocal buf
        if buf:
            out.extend(expand(tokenize("\n".join(buf)), macros))
            buf = []

    for line in src.split("\n"):
        s = line.strip()
        if not s.startswith("#"):
            if active():
                buf.append(line)
            continue
        d = s[1:].strip()
        m = re.match(r"(\w+)\s*(.*)$", d, re.S)
        if not m:
            continue
        kw, rest = m.group(1), m.group(2)
        if kw in ("ifdef", "ifndef"):
            name = rest.split()[0]
            isdef = name in defined or name in macros
            t = isdef if kw == "ifdef" else not isdef
            stack.append([t, t])
        elif kw == "if":
            # only `#if defined(X)`-free sources are expected; treat as not taken, flagged
            flush()
            out.append("__UNSUPPORTED_DIRECTIVE__")
            stack.append([False, False])
        elif kw == "else":
            if stack:
                stack[-1][0] = not stack[-1][1]
                stack[-1][1] = True
        elif kw == "elif":
            flush()
            out.append("__UNSUPPORTED_DIRECTIVE__")
            if stack:
                stack[-1][0] = False
        elif kw == "endif":
            if stack:
                stack.pop()
        elif not active():
            continue
        elif kw == "define":
            flush()
            mm = re.match(r"(\w+)(\(([^)]*)\))?\s*(.*)$", rest, re.S)
            name = mm.group(1)
            # function-like only when `(` follows the name immediately
            if mm.group(2) is not None and rest[len(name):len(name) + 1] == "(":
                ps = [p.strip() for p in mm.group(3).split(",") if p.strip()]
                variadic = bool(ps) and ps[-1] == "..."
                if variadic:
                    ps = ps[:-1]
                macros[name] = Macro(name, ps, variadic, tokenize(mm.group(4)))
            else:
                body = rest[len(name):]
                macros[name] = Macro(name, None, False, tokenize(body))
        elif kw == "undef":
            flush()
            macros.pop(rest.split()[0], None)
        # include, pragma, error: ignored
    flush()
    return out


# --------------------------------------------------------------------------
# expressions and statements

TYPE_WORDS = {"const", "unsigned", "signed", "int", "float", "double", "bool", "char", "void", "auto", "long", "short",
              "typename", "mutable", "static", "constexpr", "inline", "explicit", "virtual"}
KNOWN_TYPES = {"Tensor", "Node", "Shape", "Device", "Graph", "Var", "Parameter", "Operator", "Address", "NodeInfo",
               "OperatorInfo", "vector", "string"}


class P:
    """Recursive-descent parser over a token list."""

    def __init__(self, toks):
        self.t, self.i = toks, 0

    def peek(self, k=0):
        j = self.i + k
        return self.t[j] if j < len(self.t) else None

    def eat(self, tok=None):
        c = self.peek()
        if c is None or (tok is not None and c != tok):
            raise ParseError("expected %r, found %r" % (tok, c))
        self.i += 1
        return c

    def at(self, tok):
        return self.peek() == tok

    # ---- template argument look-ahead
    def template_args_end(self, j):
        """If tokens[j] == '<' opens a template argument list made of type-ish
        tokens, return the index just after the matching '>'; else None."""
        if j >= len(self.t) or self.t[j] != "<":
            return None
        depth, k = 0, j
        while k < len(self.t):
            u = self.t[k]
            if u == "<":
                depth += 1
            elif u == ">":
                depth -= 1
                if depth == 0:
                    return k + 1
            elif u == ">>":
                depth -= 2
                if depth == 0:
                    return k + 1
                if depth < 0:
                    return None
            elif not (is_id(u) or u in ("::", "*", "&", ",") or is_num(u)):
                return None
            k += 1
        return None

    def qualified_id(self):
        parts = []
        if self.at("::"):
            self.eat(); parts.append("")
        if not is_id(self.peek() or ""):
            raise ParseError("identifier expected, found %r" % self.peek())
        parts.append(self.eat())
        while self.at("::") and is_id(self.peek(1) or ""):
            self.eat(); parts.append(self.eat())
        return "::".join(parts)

    # ---- expressions
    def expr(self):
        return self.assign()

    def assign(self):
        l = self.ternary()
        if self.peek() in ("=", "+=", "-=", "*=", "/="):
            op = self.eat()
            r = self.assign()
            return ("assign", op, l, r)
        return l

    def ternary(self):
        c = self.binary(0)
        if self.at("?"):
            self.eat()
            a = self.assign()
            self.eat(":")
            b = self.assign()
            return ("ternary", c, a, b)
        return c

    LEVELS = [["||"], ["&&"], ["|"], ["^"], ["&"], ["==", "!="], ["<", ">", "<=", ">="], ["<<", ">>"], ["+", "-"], ["*", "/", "%"]]

    def binary(self, lvl):
        if lvl == len(self.LEVELS):
            return self.unary()
        l = self.binary(lvl + 1)
        while self.peek() in self.LEVELS[lvl]:
            op = self.eat()
            r = self.binary(lvl + 1)
            l = ("binary", op, l, r)
        return l

    def unary(self):
        c = self.peek()
        if c in ("-", "+", "!", "*", "&", "~"):
            self.eat()
            return ("unary", c, self.unary())
        if c in ("++", "--"):
            self.eat()
            return ("unary", c + "pre", self.unary())
        if c == "new":
            self.eat()
            ty = self.qualified_id()
            e = self.template_args_end(self.i)
            targs = None
            if e:
                targs = " ".join(self.t[self.i:e]); self.i = e
            args = []
            if self.at("("):
                args = self.call_args("(", ")")
            return ("new", ty, args)
        return self.postfix()

    def call_args(self, o, c):
        self.eat(o)
        args = []
        if not self.at(c):
            args.append(self.assign())
            while self.at(","):
                self.eat(); args.append(self.assign())
        self.eat(c)
        return args

    def postfix(self):
        e = self.primary()
        while True:
            c = self.peek()
            if c == "(":
                e = ("call", e, self.call_args("(", ")"), None, False)
            elif c == "[":
                self.eat(); ix = self.expr(); self.eat("]")
                e = ("index", e, ix)
            elif c in (".", "->"):
                self.eat()
                name = self.eat()
                if not is_id(name):
                    raise ParseError("member name expected")
                e = ("member", e, name, c == "->")
            elif c in ("++", "--"):
                self.eat(); e = ("postfix", c, e)
            else:
                return e

    def primary(self):
        c = self.peek()
        if c is None:
            raise ParseError("unexpected end of expression")
        if c == "(":
            self.eat(); e = self.expr(); self.eat(")")
            return ("paren", e)
        if c == "{":
            return ("brace", self.call_args("{", "}"))
        if is_num(c):
            self.eat(); return ("num", c)
        if c.startswith('"') or c.startswith('R"'):
            self.eat()
            while (self.peek() or "").startswith('"'):
                c += self.eat()
            return ("str", c)
        if c.startswith("'"):
            self.eat(); return ("chr", c)
        if c == "static_cast":
            self.eat()
            e = self.template_args_end(self.i)
            if not e:
                raise ParseError("static_cast without type")
            ty = " ".join(self.t[self.i + 1:e - 1]); self.i = e
            self.eat("(")
            v = self.expr()
            self.eat(")")
            return ("cast", ty, v)
        if c == "operator":
            raise ParseError("operator name in expression")
        if is_id(c) or c == "::":
            name = self.qualified_id()
            e = self.template_args_end(self.i)
            if e and e < len(self.t) and self.t[e] in ("(", "{"):
                targs = " ".join(self.t[self.i + 1:e - 1]); self.i = e
                if self.at("("):
                    return ("call", ("id", name), self.call_args("(", ")"), targs, False)
                return ("call", ("id", name), self.call_args("{", "}"), targs, True)
            return ("id", name)
        raise ParseError("unexpected token %r" % c)

    # ---- statements
    def try_decl(self):
        """`[const] Type[<…>] [const] [&|*] name [= e | (args) | {args}] ;` → decl node or None."""
        save = self.i
        try:
            quals = []
            while self.peek() in ("const", "static", "constexpr", "mutable"):
                quals.append(self.eat())
            if not is_id(self.peek() or "") and not self.at("::"):
                raise ParseError("no type")
            ty = self.qualified_id()
            base = ty.split("::")[-1]
            e = self.template_args_end(self.i)
            targs = ""
            if e:
                targs = " ".join(self.t[self.i:e]); self.i = e
            while self.peek() in ("const",):
                quals.append(self.eat())
            ptr = ""
            while self.peek() in ("&", "*"):
                ptr += self.eat()
            if not is_id(self.peek() or ""):
                raise ParseError("no declarator")
            if not (quals or ptr or targs or base in KNOWN_TYPES or base in TYPE_WORDS or base.endswith("_t")):
                raise ParseError("not a type")
            name = self.eat()
            tytext = " ".join(quals + [ty] + ([targs] if targs else []) + ([ptr] if ptr else []))
            if self.at("="):
                self.eat(); init = self.expr(); self.eat(";")
                return ("decl", tytext, name, init)
            if self.at(";"):
                self.eat(); return ("decl", tytext, name, None)
            if self.at("(") or self.at("{"):
                o = self.peek()
                args = self.call_args(o, ")" if o == "(" else "}")
                self.eat(";")
                return ("decl", tytext, name, ("call", ("id", ty), args, targs or None, o == "{"))
            raise ParseError("not a declaration")
        except ParseError:
            self.i = save
            return None

    def stmt_end(self, start):
        """Index after the end of the statement starting at `start` (for recovery)."""
        j, depth = start, 0
        first = self.t[start] if start < len(self.t) else None
        blocky = first in ("if", "for", "while")
        while j < len(self.t):
            u = self.t[j]
            if u in ("(", "[", "{"):
                depth += 1
            elif u in (")", "]", "}"):
                if depth == 0:
                    return j
                depth -= 1
                if depth == 0 and u == "}" and blocky:
                    if j + 1 < len(self.t) and self.t[j + 1] == "else":
                        j += 1
                    else:
                        return j + 1
            elif u == ";" and depth == 0:
                if blocky and j + 1 < len(self.t) and self.t[j + 1] == "else":
                    pass
                else:
                    return j + 1
            j += 1
        return j

    def stmt(self):
        start = self.i
        try:
            return self.stmt_inner()
        except ParseError as e:
            end = self.stmt_end(start)
            if end <= start:
                end = start + 1
            txt = " ".join(self.t[start:end])
            self.i = end
            return ("unsupported", txt)

    def stmt_inner(self):
        c = self.peek()
        if c == "{":
            self.eat()
            ss = []
            while not self.at("}"):
                if self.peek() is None:
                    raise ParseError("unterminated block")
                ss.append(self.stmt())
            self.eat("}")
            return ("block", ss)
        if c == ";":
            self.eat(); return ("empty",)
        if c == "return":
            self.eat()
            if self.at(";"):
                self.eat(); return ("return", None)
            e = self.expr(); self.eat(";")
            return ("return", e)
        if c == "if":
            self.eat(); self.eat("(")
            cond = self.expr()
            self.eat(")")
            th = self.stmt_strict()
            el = None
            if self.at("else"):
                self.eat(); el = self.stmt_strict()
            return ("if", cond, th, el)
        if c == "for":
            self.eat(); self.eat("(")
            save = self.i
            # range-for: T [&|*] v : range
            j, depth, colon = self.i, 0, None
            while j < len(self.t):
                u = self.t[j]
                if u == "(":
                    depth += 1
                elif u == ")":
                    if depth == 0:
                        break
                    depth -= 1
                elif u == ":" and depth == 0:
                    colon = j
                elif u == ";" and depth == 0:
                    colon = None; break
                j += 1
            if colon is not None:
                head = self.t[self.i:colon]
                var = head[-1]
                ty = " ".join(head[:-1])
                self.i = colon + 1
                rng = self.expr()
                self.eat(")")
                body = self.stmt_strict()
                return ("rangefor", ty, var, rng, body)
            init = self.try_decl()
            if init is None:
                raise ParseError("for-init is not a declaration")
            cond = self.expr(); self.eat(";")
            step = self.expr(); self.eat(")")
            body = self.stmt_strict()
            return ("for", init, cond, step, body)
        if c == "while":
            raise ParseError("while loop")
        if c == "using":
            raise ParseError("using declaration")
        d = self.try_decl()
        if d is not None:
            return d
        e = self.expr()
        self.eat(";")
        return ("expr", e)

    def stmt_strict(self):
        """A sub-statement: parse errors propagate so that the whole enclosing
        statement becomes `unsupported`."""
        return self.stmt_inner()


def parse_body(toks):
    p = P(toks)
    ss = []
    while p.peek() is not None:
        ss.append(p.stmt())
    return ss


def parse_expr(toks):
    p = P(toks)
    e = p.expr()
    if p.peek() is not None:
        raise ParseError("trailing tokens in expression: " + " ".join(toks))
    return e


# --------------------------------------------------------------------------
# top-level structure: namespaces, classes, function definitions

def match_close(toks, i, o, c):
    depth = 0
    while i < len(toks):
        if toks[i] == o:
            depth += 1
        elif toks[i] == c:
            depth -= 1
            if depth == 0:
                return i
        i += 1
    raise ParseError("unbalanced " + o)


def split_commas(toks):
    parts, cur, depth = [], [], 0
    for t in toks:
        if t in ("(", "[", "{", "<"):
            depth += 1
        elif t in (")", "]", "}", ">"):
            depth -= 1
        elif t == ">>":
            depth -= 2
        if t == "," and depth == 0:
            parts.append(cur); cur = []
        else:
            cur.append(t)
    if cur:
        parts.append(cur)
    return parts


def tyclass(toks):
    s = set()
    for t in toks:
        s.update(t.split("::"))
    isvec = "vector" in s or "initializer_list" in s
    if "initializer_list" in s:
        return "varinit" if s & {"Var", "Node", "Tensor"} else "idsinit"
    if s & {"Var", "Node", "Tensor"}:
        if isvec:
            return "varptrs" if "*" in s else "vars"
        return "var"
    if "Container" in s:
        return "container"
    if isvec and "uint32_t" in s:
        return "ids"
    if isvec and "float" in s:
        return "floats"
    if isvec and "Shape" in s:
        return "shapeptrs" if "*" in s else "shapes"
    if "float" in s or "double" in s:
        return "f32"
    if "std::uint32_t" in s or "uint32_t" in s or "std::size_t" in s:
        return "u32"
    if "std::int32_t" in s or "int32_t" in s or "int" in s:
        return "i32"
    if "bool" in s:
        return "bool"
    if "Shape" in s:
        return "shape"
    if "Device" in s:
        return "devp" if "*" in s else "dev"
    if "Graph" in s:
        return "graphp" if "*" in s else "graph"
    if "Parameter" in s or "primitiv::Parameter" in s:
        return "param"
    return "other"


def join_qualified(toks):
    """Merge `a :: b` token runs into single qualified identifiers."""
    out = []
    i = 0
    while i < len(toks):
        t = toks[i]
        if is_id(t):
            while i + 2 < len(toks) and toks[i + 1] == "::" and is_id(toks[i + 2]):
                t += "::" + toks[i + 2]; i += 2
        out.append(t); i += 1
    return out


def parse_params(toks):
    ps = []
    for part in split_commas(toks):
        if "=" in part:
            part = part[:part.index("=")]
        if not part:
            continue
        part = join_qualified(part)
        name = part[-1] if is_id(part[-1]) and len(part) > 1 and part[-1] not in ("const",) else ""
        ty = part[:-1] if name else part
        if name == "[" or part[-1] == "]":
            # array parameter `const float values[]`
            k = part.index("[")
            name, ty = part[k - 1], part[:k - 1] + ["*"]
        ps.append({"name": name, "ty": tyclass(ty), "tytext": " ".join(ty)})
    return ps


class FunctionDef:
    def __init__(self, ns, cls, name, targs, params, quals, init, body, template, ret):
        self.ns, self.cls, self.name, self.targs = ns, cls, name, targs
        self.params, self.quals, self.init, self.body = params, quals, init, body
        self.template, self.ret = template, ret


class ClassDef:
    def __init__(self, ns, name, base, fields, methods):
        self.ns, self.name, self.base, self.fields, self.methods = ns, name, base, fields, methods


def parse_function_at(toks, i, ns, end_tokens=(";",)):
    """Parse a function declaration or definition starting at toks[i].
    Returns (FunctionDef or None, next index)."""
    j = i
    header = []
    depth = 0
    while j < len(toks):
        u = toks[j]
        if u == "(" and depth == 0:
            break
        if u in (";", "{", "}") and depth == 0:
            return None, (j + 1 if u == ";" else j)
        if u == "<":
            depth += 1
        elif u == ">":
            depth -= 1
        elif u == ">>":
            depth -= 2
        header.append(u); j += 1
    if j >= len(toks):
        return None, j
    close = match_close(toks, j, "(", ")")
    params = toks[j + 1:close]
    k = close + 1
    quals, init = [], []
    while k < len(toks) and toks[k] not in ("{", ";", "="):
        if toks[k] == ":":
            k += 1
            # member initialiser list up to the body
            d = 0
            while k < len(toks) and not (toks[k] == "{" and d == 0):
                if toks[k] == "(":
                    d += 1
                elif toks[k] == ")":
                    d -= 1
                init.append(toks[k]); k += 1
            break
        quals.append(toks[k]); k += 1
    if k < len(toks) and toks[k] == "=":
        # `= default;` / `= 0;`
        while k < len(toks) and toks[k] != ";":
            k += 1
        return None, k + 1
    body = None
    if k < len(toks) and toks[k] == "{":
        e = match_close(toks, k, "{", "}")
        body = toks[k + 1:e]
        nxt = e + 1
    else:
        nxt = k + 1
    # name: trailing part of the header
    h = header
    if "operator" in h:
        oi = h.index("operator")
        name = "operator" + "".join(h[oi + 1:])
        ret = h[:oi]
        targs = None
    else:
        # strip explicit template arguments `concat < Node >`
        targs = None
        if h and h[-1] == ">":
            d, q = 0, len(h) - 1
            while q >= 0:
                if h[q] == ">":
                    d += 1
                elif h[q] == "<":
                    d -= 1
                    if d == 0:
                        break
                q -= 1
            targs = " ".join(h[q + 1:-1]); h = h[:q]
        q = len(h) - 1
        parts = []
        while q >= 0 and (is_id(h[q]) or h[q] == "~"):
            parts.insert(0, h[q]); q -= 1
            if q >= 0 and h[q] == "::":
                q -= 1
            else:
                break
        name = "::".join(parts)
        ret = h[:q + 1]
    cls = ""
    if "::" in name and not name.startswith("operator"):
        cls, name = name.rsplit("::", 1)
    return FunctionDef(ns, cls, name, targs, parse_params(params), quals, init, body, None, " ".join(ret)), nxt


def parse_class_body(toks, cname):
    fields, methods = [], []
    i = 0
    while i < len(toks):
        t = toks[i]
        if t in ("public", "private", "protected") and i + 1 < len(toks) and toks[i + 1] == ":":
            i += 2; continue
        if t == ";":
            i += 1; continue
        # find whether this member is a field (no '(' before ';') or a method
        j, depth, paren = i, 0, None
        while j < len(toks):
            u = toks[j]
            if u == "<":
                depth += 1
            elif u == ">":
                depth -= 1
            elif u == "(" and depth <= 0:
                paren = j; break
            elif u in (";", "{") and depth <= 0:
                break
            j += 1
        if paren is None:
            # field declaration up to ';'
            e = j
            decl = join_qualified(toks[i:e])
            names = []
            k = len(decl) - 1
            while k >= 0 and is_id(decl[k]):
                names.insert(0, decl[k])
                if k - 1 >= 0 and decl[k - 1] == ",":
                    k -= 2
                else:
                    break
            ty = decl[:k]
            ty = [x for x in ty if x != "mutable"]
            for nme in names:
                fields.append({"name": nme, "ty": tyclass(ty), "tytext": " ".join(ty)})
            i = e + 1
            continue
        f, nxt = parse_function_at(toks, i, "")
        if f is not None:
            methods.append(f)
        i = nxt
    return fields, methods


def parse_toplevel(toks):
    """Returns (functions, classes) with their namespace paths."""
    funcs, classes = [], []
    ns = []
    i = 0
    template = None
    while i < len(toks):
        t = toks[i]
        if t == "namespace":
            j = i + 1
            name = ""
            if toks[j] != "{":
                name = toks[j]; j += 1
            if toks[j] != "{":
                # namespace alias etc.
                while toks[j] != ";":
                    j += 1
                i = j + 1; continue
            ns.append(name or "(anon)")
            i = j + 1; continue
        if t == "}":
            if ns:
                ns.pop()
            i += 1; continue
        if t == ";":
            i += 1; continue
        if t == "using" or t == "typedef":
            while toks[i] != ";":
                i += 1
            i += 1; continue
        if t == "template":
            e = match_close(toks, i + 1, "<", ">")
            template = " ".join(toks[i + 2:e])
            i = e + 1; continue
        if t in ("class", "struct"):
            j = i + 1
            cname = toks[j]; j += 1
            if toks[j] == ";":
                i = j + 1; template = None; continue
            base = []
            if toks[j] == ":":
                j += 1
                while toks[j] != "{":
                    base.append(toks[j]); j += 1
            e = match_close(toks, j, "{", "}")
            fields, methods = parse_class_body(toks[j + 1:e], cname)
            classes.append(ClassDef(list(ns), cname, " ".join(base), fields, methods))
            i = e + 1
            template = None
            continue
        if t == "extern":
            # extern "C" { … } is not expected here
            raise ParseError("extern block")
        f, nxt = parse_function_at(toks, i, list(ns))
        if f is not None:
            f.template = template
            funcs.append(f)
        template = None
        if nxt <= i:
            nxt = i + 1
        i = nxt
    return funcs, classes


# --------------------------------------------------------------------------
# flattening into three-address code

def src_of(e):
    """Canonical source text of an AST node (for `unsupported` entries and conditions)."""
    k = e[0]
    if k in ("id", "num", "str", "chr"):
        return e[1]
    if k == "paren":
        return "(" + src_of(e[1]) + ")"
    if k == "unary":
        return e[1].replace("pre", "") + src_of(e[2])
    if k == "postfix":
        return src_of(e[2]) + e[1]
    if k == "binary":
        return src_of(e[2]) + " " + e[1] + " " + src_of(e[3])
    if k == "assign":
        return src_of(e[2]) + " " + e[1] + " " + src_of(e[3])
    if k == "ternary":
        return src_of(e[1]) + " ? " + src_of(e[2]) + " : " + src_of(e[3])
    if k == "call":
        o, c = ("{", "}") if e[4] else ("(", ")")
        return src_of(e[1]) + ("<" + e[3] + ">" if e[3] else "") + o + ", ".join(src_of(a) for a in e[2]) + c
    if k == "index":
        return src_of(e[1]) + "[" + src_of(e[2]) + "]"
    if k == "member":
        return src_of(e[1]) + ("->" if e[3] else ".") + e[2]
    if k == "brace":
        return "{" + ", ".join(src_of(a) for a in e[1]) + "}"
    if k == "new":
        return "new " + e[1] + "(" + ", ".join(src_of(a) for a in e[2]) + ")"
    if k == "cast":
        return "static_cast<" + e[1] + ">(" + src_of(e[2]) + ")"
    return repr(e)


def stmt_src(s):
    k = s[0]
    if k == "unsupported":
        return s[1]
    if k == "expr":
        return src_of(s[1]) + ";"
    if k == "decl":
        return s[1] + " " + s[2] + (" = " + src_of(s[3]) if s[3] is not None else "") + ";"
    if k == "return":
        return "return" + (" " + src_of(s[1]) if s[1] is not None else "") + ";"
    if k == "block":
        return "{ " + " ".join(stmt_src(x) for x in s[1]) + " }"
    if k == "if":
        return "if (" + src_of(s[1]) + ") " + stmt_src(s[2]) + (" else " + stmt_src(s[3]) if s[3] else "")
    if k == "for":
        return "for (" + stmt_src(s[1]) + " " + src_of(s[2]) + "; " + src_of(s[3]) + ") " + stmt_src(s[4])
    if k == "rangefor":
        return "for (" + s[1] + " " + s[2] + " : " + src_of(s[3]) + ") " + stmt_src(s[4])
    if k == "empty":
        return ";"
    return repr(s)


VEC_NAMES = ("x", "y", "gx", "gy")
SHAPE_METHODS = {"shape", "is_scalar", "has_batch", "batch", "depth", "volume", "size", "resize_dim", "resize_batch",
                 "update_dim", "update_batch", "has_same_dims", "has_same_loo_dims", "has_compatible_batch", "to_string",
                 "lower_volume", "is_matrix"}
VAR_METHODS = {"flatten", "reshape", "device", "graph", "valid", "to_vector", "to_float", "check_valid",
               "inplace_multiply_const", "inplace_add", "inplace_subtract"}
OTHER_METHODS = {"gradient", "value", "empty", "begin", "end", "data", "get"}
MUTATING = {"update_dim", "update_batch"}
NOOP_METHODS = {"reserve"}
PUSH_METHODS = {"emplace_back", "push_back"}
HELPERS = {"get_device", "obj_to_ptr", "ptr_to_obj", "Device::get_reference_or_default",
           "Graph::get_reference_or_default", "Device::get_default", "primitiv::Device::get_default"}
THROW_MACROS = {"PRIMITIV_THROW_ERROR", "PRIMITIV_THROW_NOT_IMPLEMENTED"}


class Flat:
    """Flattens the statements of one body.

    ctx:  'rule'  (x, y, gx, gy are the argument vectors; attrs of the class)
          'fn'    (a free function / method: parameters)
    """

    def __init__(self, kind, params, attrs, ns, known_fns, xkind="var", cls=""):
        self.kind, self.ns, self.known, self.cls = kind, ns, known_fns, cls
        self.ty = {}
        for p in params:
            self.ty[p["name"]] = p["ty"]
        self.attrs = {a["name"]: a["ty"] for a in attrs}
        self.calls = []
        self.branches = []
        self.ntemp = 0
        self.loop = ""      # bound term of the enclosing counted loop, ":gx" for a range-for over gx
        self.lvar = ""      # its variable
        self.loopvar = None
        self.idx = {v: None for v in VEC_NAMES}   # None | int | ('all', bound)
        self.yset, self.ysetall = [], ""
        self.xkind = xkind  # type of *x[i] in a rule: 'var' or 'shape'
        self.vecs = set(VEC_NAMES) & {p["name"] for p in params} if kind == "rule" else set()

    # -- bookkeeping
    def temp(self, ty):
        self.ntemp += 1
        t = "%%%d" % self.ntemp
        self.ty[t] = ty
        return t

    def emit(self, dst, mode, kind, name, recv="", args=(), cargs=()):
        self.calls.append({"dst": dst, "mode": mode, "kind": kind, "name": name, "recv": recv,
                           "args": list(args), "cargs": list(cargs), "loop": self.loop, "lvar": self.lvar,
                           "ty": self.tyof(dst) if dst else ""})

    def unsupported(self, text):
        self.emit("", "stmt", "unsupported", text)

    def use_index(self, v, ixe):
        if ixe[0] == "num":
            n = int(ixe[1])
            cur = self.idx[v]
            if cur is None or (isinstance(cur, int) and n > cur):
                self.idx[v] = n
            return v + str(n)
        if ixe[0] == "id" and ixe[1] == self.loopvar:
            self.idx[v] = ("all", self.loop if not self.loop.startswith(":") else "")
            return v + "[i]"
        raise ParseError("index of %s is neither a literal nor the loop variable" % v)

    def tyof(self, term):
        if term.startswith("#"):
            return "bool" if term in ("#true", "#false") else "num"
        if term in self.ty:
            return self.ty[term]
        if term in self.attrs:
            return self.attrs[term]
        m = re.match(r"(x|y|gx|gy)(\d+|\[\w+\])$", term)
        if m and self.kind == "rule":
            return self.xkind
        return "other"

    def resolve_fn(self, name):
        """Namespace-relative name of a call to a function of primitiv::functions."""
        n = name
        for pre in ("primitiv::functions::", "functions::", "::primitiv::functions::"):
            if n.startswith(pre):
                return n[len(pre):], True
        if "::" not in n:
            if self.ns and (self.ns + "::" + n) in self.known:
                return self.ns + "::" + n, True
            if n in self.known:
                return n, True
            return n, False
        if n in self.known:
            return n, True
        return n, False

    # -- expressions: returns a term
    def ex(self, e):
        k = e[0]
        if k == "paren":
            return self.ex(e[1])
        if k == "num":
            return "#" + e[1]
        if k == "str":
            return "#str"
        if k == "id":
            n = e[1]
            if n in ("true", "false", "nullptr", "this"):
                return "#" + n
            if n in self.vecs:
                self.idx[n] = ("all", "")
                self.ty[n + "*"] = "varptrs" if self.xkind == "var" else "shapeptrs"
                return n + "*"
            if n.startswith("Operator::"):
                return "#" + n
            return n
        if k == "cast":
            if e[1].strip() == "void":
                # UNUSED(x): not a use of the vector
                a = e[2][1] + "*" if e[2][0] == "id" and e[2][1] in self.vecs else self.ex(e[2])
                self.emit("", "stmt", "noop", "unused", args=[a])
                return "#void"
            if e[1].replace(" ", "") == "constShape&":
                t = self.ex(e[2])
                return t
            raise ParseError("static_cast to " + e[1])
        if k == "unary":
            op = e[1]
            if op == "*":
                inner = e[2]
                if inner[0] == "index" and inner[1][0] == "id" and inner[1][1] in self.vecs:
                    return self.use_index(inner[1][1], inner[2])
                t = self.ex(inner)
                return t           # dereference of a pointer-valued term
            if op == "&":
                t = self.ex(e[2])
                if self.tyof(t) in ("dev", "devp"):
                    return t
                r = self.temp("ptr")
                self.emit(r, "set", "arith", "&", args=[t])
                return r
            t = self.ex(e[2])
            if op in ("-", "+") and self.tyof(t) in ("var", "vars"):
                r = self.temp("var")
                self.emit(r, "set", "op", "neg" if op == "-" else "pos", args=[t])
                return r
            if op in ("-", "+", "!", "~"):
                r = self.temp("bool" if op == "!" else "num")
                self.emit(r, "set", "arith", op if op != "-" else "neg", args=[t])
                return r
            raise ParseError("unary " + op)
        if k == "binary":
            op = e[1]
            a, b = self.ex(e[2]), self.ex(e[3])
            if op in ("+", "-", "*", "/") and ("var" in (self.tyof(a), self.tyof(b))):
                r = self.temp("var")
                self.emit(r, "set", "op", op, args=[a, b])
                return r
            if op == "<<":
                raise ParseError("stream output")
            r = self.temp("bool" if op in ("==", "!=", "<", ">", "<=", ">=", "&&", "||") else "num")
            self.emit(r, "set", "arith", op, args=[a, b])
            return r
        if k == "ternary":
            c, a, b = self.ex(e[1]), self.ex(e[2]), self.ex(e[3])
            r = self.temp(self.tyof(a))
            self.emit(r, "set", "arith", "?:", args=[c, a, b])
            return r
        if k == "index":
            base = e[1]
            if base[0] == "id" and base[1] in self.vecs:
                return self.use_index(base[1], e[2])
            b = self.ex(base)
            i = self.ex(e[2])
            tb = self.tyof(b)
            r = self.temp("u32" if tb == "shape" else ("var" if tb in ("vars", "varptrs", "nodes") else "other"))
            self.emit(r, "set", "method", "at", recv=b, args=[i])
            return r
        if k == "brace":
            args = [self.ex(a) for a in e[1]]
            r = self.temp("list")
            self.emit(r, "set", "ctor", "{}", args=args)
            return r
        if k == "member":
            raise ParseError("data member access " + src_of(e))
        if k == "call":
            return self.call(e)
        if k == "assign":
            raise ParseError("nested assignment")
        raise ParseError("expression " + src_of(e))

    def call(self, e):
        f, args, targs, brace = e[1], e[2], e[3], e[4]
        if f[0] == "member":
            obj, m = f[1], f[2]
            # registration of an operator
            if m == "add_operator":
                g = self.ex(obj)
                if len(args) != 2:
                    raise ParseError("add_operator with %d arguments" % len(args))
                up = args[0]
                if not (up[0] == "call" and up[1] == ("id", "std::unique_ptr") and len(up[2]) == 1 and up[2][0][0] == "new"):
                    raise ParseError("add_operator: first argument is not unique_ptr<Operator>(new …)")
                new = up[2][0]
                opn = new[1]
                if not opn.startswith("operators::"):
                    raise ParseError("add_operator: operator class " + opn)
                cargs = [self.ex(a) for a in new[2]]
                second = args[1]
                if second[0] == "brace":
                    nodes = [self.ex(a) for a in second[1]]
                else:
                    nodes = [self.ex(second)]
                r = self.temp("nodes")
                self.emit(r, "set", "reg", opn[len("operators::"):], recv=g, args=nodes, cargs=cargs)
                return r
            recv = self.ex(obj)
            a = [self.ex(x) for x in args]
            rt = self.tyof(recv)
            if rt in ("dev", "devp"):
                r = self.temp("var")
                self.emit(r, "set", "kernel", m, recv=recv, args=a)
                return r
            if m in MUTATING:
                self.emit(recv, "set", "method", m, recv=recv, args=a)
                return recv
            if m in NOOP_METHODS:
                self.emit("", "stmt", "noop", m, recv=recv, args=a)
                return "#void"
            if m in PUSH_METHODS:
                if len(a) != 1:
                    raise ParseError(m + " with %d arguments" % len(a))
                self.emit(recv, "push", "copy", "", args=a)
                return "#void"
            if m in SHAPE_METHODS or m in VAR_METHODS or m in OTHER_METHODS:
                res = {"shape": "shape", "resize_dim": "shape", "resize_batch": "shape", "device": "dev",
                       "graph": "graph", "flatten": "var", "reshape": "var", "gradient": "var", "value": "var",
                       "is_scalar": "bool", "has_batch": "bool", "empty": "bool", "valid": "bool",
                       "has_same_dims": "bool", "has_same_loo_dims": "bool", "has_compatible_batch": "bool",
                       "is_matrix": "bool"}.get(m, "u32")
                r = self.temp(res)
                self.emit(r, "set", "method", m, recv=recv, args=a)
                return r
            raise ParseError("method " + m)
        if f[0] != "id":
            raise ParseError("call of " + src_of(f))
        name = f[1]
        if name in THROW_MACROS:
            self.emit("", "stmt", "throw", name)
            return "#void"
        if name.startswith("shape_ops::") or name.startswith("primitiv::shape_ops::"):
            a = [self.ex(x) for x in args]
            r = self.temp("shape")
            self.emit(r, "set", "shape", name.split("::")[-1], args=a)
            return r
        bare = name[2:] if name.startswith("::") else name
        if bare in HELPERS:
            a = [self.ex(x) for x in args]
            res = "dev" if "evice" in bare else ("graph" if "Graph" in bare else
                                                {"ptr_to_obj": "vars", "obj_to_ptr": "varptrs"}.get(bare, "other"))
            r = self.temp(res)
            self.emit(r, "set", "helper", bare, args=a)
            return r
        if bare == "std::unique_ptr":
            raise ParseError("unique_ptr outside add_operator")
        if bare in ("Shape", "primitiv::Shape") or bare in ("std::vector", "vector", "Tensor", "Node"):
            a = []
            for x in args:
                if x[0] == "brace":
                    a += [self.ex(y) for y in x[1]]
                else:
                    a.append(self.ex(x))
            res = {"Shape": "shape", "primitiv::Shape": "shape", "Tensor": "var", "Node": "var"}.get(bare, "list")
            if res == "list" and not brace and len(a) == 1:
                res = self.tyof(a[0])          # std::vector<T>(xs): a copy / conversion of a vector
                if "*" in (targs or "") and res == "vars":
                    res = "varptrs"
            r = self.temp(res)
            self.emit(r, "set", "ctor", "{}" if (brace and res == "list") else bare.split("::")[-1], args=a)
            return r
        if bare.startswith("std::"):
            a = [self.ex(x) for x in args]
            r = self.temp("num")
            self.emit(r, "set", "arith", bare, args=a)
            return r
        fn, known = self.resolve_fn(bare)
        if known:
            a = [self.ex(x) for x in args]
            rt = "vars" if fn.split("::")[-1] == "split" else "var"
            r = self.temp(rt)
            self.emit(r, "set", "fn", fn, recv=(targs or ""), args=a)
            return r
        if self.cls and is_id(bare):
            # unqualified call inside a member function: a method of `this`
            a = [self.ex(x) for x in args]
            r = self.temp("var" if bare.startswith("new_") else "other")
            self.emit(r, "set", "self", bare, args=a)
            return r
        raise ParseError("call of unknown function " + name)

    # -- lvalues
    def lvalue(self, e):
        if e[0] == "unary" and e[1] == "*":
            inner = e[2]
            if inner[0] == "index" and inner[1][0] == "id" and inner[1][1] in self.vecs:
                return self.use_index(inner[1][1], inner[2])
            if inner[0] == "id":
                return inner[1]
        if e[0] == "id":
            return e[1]
        if e[0] == "call" and e[1][0] == "member" and e[1][2] in ("gradient", "value") and not e[2]:
            return e[1][2] + "(" + self.ex(e[1][1]) + ")"
        raise ParseError("assignment target " + src_of(e))

    def retarget(self, term, dst):
        """If `term` is the temporary produced by the last call, make that call write `dst`."""
        if self.calls and term.startswith("%") and self.calls[-1]["dst"] == term and self.calls[-1]["mode"] == "set" \
                and self.calls[-1]["loop"] == self.loop:
            self.calls[-1]["dst"] = dst
            if self.tyof(dst) == "other":
                self.ty[dst] = self.ty.get(term, "other")
            self.calls[-1]["ty"] = self.tyof(dst) if self.tyof(dst) != "other" else self.ty.get(term, "other")
            return True
        return False

    # -- statements
    def is_throw(self, s):
        if s[0] == "block":
            return len(s[1]) == 1 and self.is_throw(s[1][0])
        return s[0] == "expr" and s[1][0] == "call" and s[1][1][0] == "id" and s[1][1][1] in THROW_MACROS

    def is_return_only(self, s):
        if s[0] == "block":
            return len(s[1]) >= 1 and s[1][-1][0] == "return" and all(x[0] in ("decl", "expr", "return") for x in s[1])
        return s[0] == "return"

    def stmt(self, s, top=False):
        n0 = len(self.calls)
        try:
            self.stmt_inner(s, top)
        except ParseError as e:
            del self.calls[n0:]
            self.unsupported(stmt_src(s))

    def stmt_inner(self, s, top):
        k = s[0]
        if k == "empty":
            return
        if k == "unsupported":
            self.unsupported(s[1]); return
        if k == "block":
            for x in s[1]:
                self.stmt(x, top)
            return
        if k == "decl":
            ty, name, init = s[1], s[2], s[3]
            tc = tyclass(join_qualified(ty.split()))
            if init is None:
                self.ty[name] = tc
                self.emit(name, "set", "ctor", "default", args=[])
                return
            t = self.ex(init)
            self.ty[name] = tc if tc != "other" else self.tyof(t)
            if not self.retarget(t, name):
                self.emit(name, "set", "copy", "", args=[t])
            return
        if k == "return":
            if s[1] is None:
                self.emit("", "ret", "copy", "", args=[]); return
            t = self.ex(s[1])
            self.ty["ret"] = self.tyof(t)
            self.emit("ret", "ret", "copy", "", args=[t])
            return
        if k == "expr":
            e = s[1]
            if e[0] == "assign":
                op = e[1]
                if op not in ("=", "+=", "-="):
                    raise ParseError("assignment operator " + op)
                dst = self.lvalue(e[2])
                t = self.ex(e[3])
                mode = {"=": "set", "+=": "add", "-=": "sub"}[op]
                m = re.match(r"y(\d+)$", dst)
                if m and mode == "set":
                    self.yset.append(int(m.group(1)))
                if dst.startswith("y[") and mode == "set":
                    self.ysetall = self.loop if self.loop and not self.loop.startswith(":") else "?"
                if mode == "set" and self.retarget(t, dst):
                    return
                self.emit(dst, mode, "copy", "", args=[t])
                return
            t = self.ex(e)
            return
        if k == "if":
            cond, th, el = s[1], s[2], s[3]
            if self.is_throw(th) and el is None:
                c = self.ex(cond)
                self.emit("", "throwif", "throw", src_of(cond), args=[c])
                return
            if top and self.is_return_only(th) and not self.loop:
                # decision list: if (c) return …; [else if … ] [else return …;]
                pre = self.calls
                self.calls = []
                c = self.ex(cond)
                pre = pre + self.calls
                self.calls = []
                self.stmt(th, False)
                body = self.calls
                self.branches.append({"pre": pre, "cond": c, "body": body})
                self.calls = []
                if el is not None:
                    self.stmt(el, True)
                return
            raise ParseError("if statement")
        if k == "for":
            init, cond, step, body = s[1], s[2], s[3], s[4]
            if self.loop:
                raise ParseError("nested loop")
            if not (init[0] == "decl" and init[3] == ("num", "0")):
                raise ParseError("loop does not start at 0")
            v = init[2]
            if not (cond[0] == "binary" and cond[1] == "<" and cond[2] == ("id", v)):
                raise ParseError("loop condition")
            if not (step == ("unary", "++pre", ("id", v)) or step == ("postfix", "++", ("id", v))):
                raise ParseError("loop step")
            bound = self.ex(cond[3])
            self.loop, self.lvar, self.loopvar = bound, v, v
            self.ty[v] = "u32"
            try:
                self.stmt_inner(body, False)
            finally:
                self.loop, self.lvar, self.loopvar = "", "", None
            return
        if k == "rangefor":
            ty, v, rng, body = s[1], s[2], s[3], s[4]
            if self.loop:
                raise ParseError("nested loop")
            if not (rng[0] == "id" and (rng[1] in self.vecs or self.ty.get(rng[1]) in ("vars", "varptrs"))):
                raise ParseError("range-for over " + src_of(rng))
            if rng[1] in self.vecs:
                self.idx[rng[1]] = ("all", "")
            self.loop, self.lvar, self.loopvar = ":" + rng[1], v, None
            self.ty[v] = "var"
            try:
                self.stmt_inner(body, False)
            finally:
                self.loop, self.lvar = "", ""
            return
        raise ParseError("statement " + k)

    def run(self, stmts):
        for s in stmts:
            self.stmt(s, True)
        self.branches.append({"pre": [], "cond": "", "body": self.calls})
        self.calls = []
        return self.branches


# --------------------------------------------------------------------------
# per-file translation

def read(path):
    with open(os.path.join(repo(), path)) as f:
        return f.read()


def known_function_names(files, defined):
    """Names (namespace-relative) of the functions of primitiv::functions defined or declared in the given files."""
    names = set()
    for path in files:
        toks = preprocess(read(path), defined)
        funcs, _ = parse_toplevel(toks)
        for f in funcs:
            if "functions" in f.ns:
                rel = [n for n in f.ns[f.ns.index("functions") + 1:] if n != "(anon)"]
                names.add("::".join(rel + [f.name]))
    return names


def rel_ns(ns):
    if "functions" in ns:
        return "::".join(n for n in ns[ns.index("functions") + 1:] if n != "(anon)")
    return ""


def flatten_fn(f, known, cls_attrs=(), kind="fn", xkind="var"):
    if f.body is None:
        return None
    stmts = parse_body(f.body)
    fl = Flat(kind, f.params, list(cls_attrs), rel_ns(f.ns), known, xkind=xkind, cls=f.cls)
    branches = fl.run(stmts)
    return fl, branches


def idx_of(v):
    if v is None:
        return ("none",)
    if isinstance(v, int):
        return ("upto", v)
    return ("all", v[1])


def translate_ops(defined, known):
    htoks = preprocess(read("primitiv/core/operator_impl.h"), defined)
    _, classes = parse_toplevel(htoks)
    ctoks = preprocess(read("primitiv/core/operator_impl.cc"), defined)
    funcs, _ = parse_toplevel(ctoks)
    by_cls = {}
    for f in funcs:
        by_cls.setdefault(f.cls.split("::")[-1], {})[f.name] = f
    ops = []
    for c in classes:
        if "Operator" not in c.base:
            continue
        m = {f.name: f for f in c.methods}
        op = {"name": c.name, "attrs": [{"name": a["name"], "ty": a["ty"]} for a in c.fields]}

        def ret_expr(fn):
            """the expression of a body consisting of `return e;`"""
            if fn is None or fn.body is None:
                return None
            ss = parse_body(fn.body)
            if len(ss) == 1 and ss[0][0] == "return" and ss[0][1] is not None:
                return ss[0][1]
            return None
        e = ret_expr(m.get("num_arguments"))
        if e is not None and e[0] == "num":
            op["argn"] = ("num", int(e[1]))
        elif e == ("id", "Operator::NONZERO"):
            op["argn"] = ("nonzero",)
        elif e == ("id", "Operator::ANY"):
            op["argn"] = ("any",)
        else:
            op["argn"] = ("unsupported", " ".join(m["num_arguments"].body) if "num_arguments" in m and m["num_arguments"].body else "missing")
        e = ret_expr(m.get("num_returns"))
        if e is not None and e[0] == "num":
            op["retn"] = ("num", int(e[1]))
        elif e is not None and e[0] == "id" and any(a["name"] == e[1] for a in c.fields):
            op["retn"] = ("attr", e[1])
        else:
            op["retn"] = ("unsupported", " ".join(m["num_returns"].body) if "num_returns" in m and m["num_returns"].body else "missing")
        e = ret_expr(m.get("has_inner_values"))
        op["inner"] = (e == ("id", "true"))
        if e not in (("id", "true"), ("id", "false")):
            op["argn"] = ("unsupported", "has_inner_values: " + (src_of(e) if e else "missing"))
        gd = m.get("get_device")
        op["device"] = " ".join(gd.body).replace("return ", "").rstrip("; ").strip() if gd is not None and gd.body else ""
        op["hasForward"] = "forward" in m
        # constructor: in the class or in the .cc file
        ctor = m.get(c.name)
        if ctor is None or (ctor.body is None and not ctor.init):
            ctor = by_cls.get(c.name, {}).get(c.name) or ctor
        op["ctorParams"], op["ctorInit"], op["ctorBody"] = [], [], [{"pre": [], "cond": "", "body": []}]
        if ctor is not None:
            op["ctorParams"] = [{"name": p["name"], "ty": p["ty"]} for p in ctor.params]
            for part in split_commas(ctor.init):
                if len(part) >= 3 and part[1] == "(" and part[-1] == ")":
                    op["ctorInit"].append((part[0], " ".join(part[2:-1])))
                else:
                    op["ctorInit"].append((" ".join(part), "unsupported"))
            if ctor.body:
                r = flatten_fn(ctor, known, c.fields, kind="fn")
                op["ctorBody"] = r[1]
        elif c.fields:
            op["ctorInit"].append(("?", "unsupported: no constructor found"))
        # inner values
        op["innerCount"] = 0
        op["innerBody"] = []
        giv = by_cls.get(c.name, {}).get("get_inner_values")
        if giv is None or giv.body is None:
            giv = m.get("get_inner_values")
        if op["inner"]:
            if giv is not None and giv.body is not None:
                ss = parse_body(giv.body)
                if len(ss) == 1 and ss[0][0] == "return" and ss[0][1] is not None and ss[0][1][0] == "call" and ss[0][1][4]:
                    op["innerCount"] = len(ss[0][1][2])
                op["innerBody"] = flatten_fn(giv, known, c.fields, kind="fn")[1]
            else:
                op["innerBody"] = [{"pre": [], "cond": "", "body": [call_unsupported("missing get_inner_values of " + c.name)]}]
        # rules
        for key, mname, xk in (("fwdShape", "forward_shape", "shape"), ("fwd", "forward", "var"), ("bwd", "backward", "var")):
            f = by_cls.get(c.name, {}).get(mname)
            if f is None:
                if mname == "forward" and not op["hasForward"]:
                    op[key] = {"body": [], "x": ("none",), "y": ("none",), "gx": ("none",), "gy": ("none",), "yset": [], "ysetall": ""}
                else:
                    op[key] = {"body": [{"pre": [], "cond": "", "body": [call_unsupported("missing definition of %s::%s" % (c.name, mname))]}],
                               "x": ("none",), "y": ("none",), "gx": ("none",), "gy": ("none",), "yset": [], "ysetall": ""}
                continue
            fl, br = flatten_fn(f, known, c.fields, kind="rule", xkind=xk)
            op[key] = {"body": br, "x": idx_of(fl.idx["x"]), "y": idx_of(fl.idx["y"]), "gx": idx_of(fl.idx["gx"]),
                       "gy": idx_of(fl.idx["gy"]), "yset": sorted(set(fl.yset)), "ysetall": fl.ysetall}
        ops.append(op)
    return ops


def call_unsupported(text):
    return {"dst": "", "mode": "stmt", "kind": "unsupported", "name": text, "recv": "", "args": [], "cargs": [], "loop": "", "lvar": "", "ty": ""}


def translate_fns(path, defined, known, want=None, cls_filter=None):
    toks = preprocess(read(path), defined)
    if "__UNSUPPORTED_DIRECTIVE__" in toks:
        return [{"ns": "", "name": path, "targ": "", "params": [], "body": [{"pre": [], "cond": "", "body": [call_unsupported("#if/#elif directive in " + path)]}]}]
    funcs, _ = parse_toplevel(toks)
    out = []
    for f in funcs:
        if f.body is None:
            continue
        if cls_filter is not None:
            if f.cls.split("::")[-1] != cls_filter:
                continue
            ns = cls_filter
        else:
            if f.cls:
                continue
            if "functions" not in f.ns and not f.name.startswith("operator"):
                if "(anon)" in f.ns:
                    ns = "(anon)"
                else:
                    continue
            else:
                ns = rel_ns(f.ns)
        if want is not None and not want(f):
            continue
        r = flatten_fn(f, known)
        targ = (f.targs or "").strip()
        if not targ and f.template is not None:
            if f.template.strip() == "":
                # full specialisation: the variable type is the return type
                targ = "Node" if "Node" in f.ret.split() or "std::vector<Node>" in f.ret.replace(" ", "") else \
                       ("Tensor" if "Tensor" in f.ret.replace("<", " ").replace(">", " ").split() else "")
            elif "Var" in f.template.split():
                targ = "Var"
            elif "Container" in f.template.split():
                targ = "Container"
        out.append({"ns": ns, "name": (ns + "::" if ns and ns not in ("(anon)", "Device", "Tensor") else "") + f.name, "targ": targ, "params": [{"name": p["name"], "ty": p["ty"]} for p in f.params], "body": r[1]})
    return out


def build_table(defined):
    known = known_function_names(["primitiv/core/node_funcs.cc", "primitiv/core/tensor_funcs.cc",
                                  "primitiv/contrib/functions.h"], defined)
    # template front-ends declared in basic_functions.h and used unqualified in the bodies
    known |= {"input", "parameter", "constant", "identity", "zeros", "ones",
              "random::bernoulli", "random::uniform", "random::normal", "random::log_normal", "random::gumbel"}
    t = {}
    t["ops"] = translate_ops(defined, known)
    t["nodeFns"] = translate_fns("primitiv/core/node_funcs.cc", defined, known)
    t["tensorFns"] = translate_fns("primitiv/core/tensor_funcs.cc", defined, known)
    t["arithFns"] = translate_fns("primitiv/core/arithmetic.h", defined, known, want=lambda f: f.name.startswith("operator"))
    t["sharedFns"] = translate_fns("primitiv/contrib/functions.h", defined, known,
                                   want=lambda f: f.name in SHARED_NAMES and not any(p["ty"] == "container" for p in f.params))
    t["basicFns"] = translate_fns("primitiv/core/basic_functions.h", defined, known,
                                  want=lambda f: not any(p["ty"] in ("container", "varinit", "idsinit") for p in f.params))
    # the forward front-ends (functions returning a Tensor) and the reset_tensor* functions they call
    t["fronts"] = translate_fns("primitiv/core/device.cc", defined, known, cls_filter="Device",
                                want=lambda f: f.ret.split()[-1:] == ["Tensor"] or f.name.startswith("reset_tensor"))
    t["tmethods"] = translate_fns("primitiv/core/tensor.cc", defined, known, cls_filter="Tensor",
                                  want=lambda f: f.name in ("reshape", "flatten"))
    return t


# --------------------------------------------------------------------------
# Lean output

def lstr(s):
    return '"' + s.replace("\\", "\\\\").replace('"', '\\"').replace("\n", "\\n") + '"'


def llist(items):
    return "[" + ", ".join(items) + "]"


def lcall(c):
    # Call: ⟨dst, ty, mode, kind, name, recv, args, cargs, loop, lvar⟩
    return "⟨%s, %s, %s, %s, %s, %s, %s, %s, %s, %s⟩" % (lstr(c["dst"]), lstr(c["ty"]), lstr(c["mode"]), lstr(c["kind"]), lstr(c["name"]), lstr(c["recv"]),
                                                      llist(lstr(a) for a in c["args"]), llist(lstr(a) for a in c["cargs"]), lstr(c["loop"]), lstr(c["lvar"]))


def lbranch(b, ind):
    pad = " " * ind
    def calls(cs):
        if not cs:
            return "[]"
        return "[\n" + ",\n".join(pad + "    " + lcall(c) for c in cs) + "]"
    # Branch: ⟨pre, cond, body⟩
    return "⟨%s,\n%s  %s,\n%s  %s⟩" % (calls(b["pre"]), pad, lstr(b["cond"]), pad, calls(b["body"]))


def lbody(br, ind):
    pad = " " * ind
    return "[" + (",\n" + pad).join(lbranch(b, ind) for b in br) + "]"


def lidx(v):
    if v[0] == "none":
        return ".none"
    if v[0] == "upto":
        return "(.upto %d)" % v[1]
    return "(.all %s)" % lstr(v[1])


def lrule(r):
    # Rule: ⟨body, x, y, gx, gy, ySet, ySetAll⟩
    return ("⟨%s,\n      %s, %s, %s, %s, %s, %s⟩"
            % (lbody(r["body"], 8), lidx(r["x"]), lidx(r["y"]), lidx(r["gx"]), lidx(r["gy"]),
               llist(str(n) for n in r["yset"]), lstr(r["ysetall"])))


def lparams(ps):
    return llist("⟨%s, %s⟩" % (lstr(p["name"]), lstr(p["ty"])) for p in ps)


def lop(o):
    a = o["argn"]
    argn = {"num": lambda: "(.num %d)" % a[1], "any": lambda: ".any", "nonzero": lambda: ".nonzero",
            "unsupported": lambda: "(.unsupported %s)" % lstr(a[1])}[a[0]]()
    r = o["retn"]
    retn = {"num": lambda: "(.num %d)" % r[1], "attr": lambda: "(.attr %s)" % lstr(r[1]),
            "unsupported": lambda: "(.unsupported %s)" % lstr(r[1])}[r[0]]()
    # Op: ⟨name, argn, retn, innerValues, device, attrs, ctorParams, ctorInit, ctorBody, innerCount, innerBody, hasForward, fwdShape, fwd, bwd⟩
    return ("⟨%s, %s, %s, %s, %s,\n"
            "    %s,\n    %s,\n    %s,\n    %s,\n"
            "    %d, %s, %s,\n    -- FWD_SHAPE\n    %s,\n    -- FORWARD\n    %s,\n    -- BACKWARD\n    %s⟩"
            % (lstr(o["name"]), argn, retn, "true" if o["inner"] else "false", lstr(o["device"]),
               llist("⟨%s, %s⟩" % (lstr(x["name"]), lstr(x["ty"])) for x in o["attrs"]),
               lparams(o["ctorParams"]),
               llist("(%s, %s)" % (lstr(k), lstr(v)) for k, v in o["ctorInit"]),
               lbody(o["ctorBody"], 8),
               o["innerCount"], lbody(o["innerBody"], 8), "true" if o["hasForward"] else "false",
               lrule(o["fwdShape"]), lrule(o["fwd"]), lrule(o["bwd"])))


def lfn(f):
    # Fn: ⟨ns, name, targ, params, body⟩
    return "⟨%s, %s, %s, %s,\n    %s⟩" % (lstr(f["ns"]), lstr(f["name"]), lstr(f["targ"]), lparams(f["params"]), lbody(f["body"], 8))


def emit_list(name, ty, items, render, chunk=12):
    """A list definition split into chunks (keeps elaboration fast)."""
    out = []
    names = []
    for k in range(0, max(len(items), 1), chunk):
        part = items[k:k + chunk]
        nm = "%s_%d" % (name, k // chunk)
        names.append(nm)
        out.append("def %s : List %s := [\n  %s]\n" % (nm, ty, ",\n  ".join(render(x) for x in part)))
    out.append("def %s : List %s := %s\n" % (name, ty, " ++ ".join(names)))
    return "\n".join(out)


def render(tables):
    plain, cache = tables
    out = ["/- GENERATED by /verif/translate/operators.py from the working tree of primitiv — do not edit.",
           "   Regenerated on every run of the C04 check. -/",
           "import PrimitivModel.Model.OpTable",
           "namespace Primitiv.Gen.OpTable",
           "open Primitiv.OpTable",
           "set_option maxRecDepth 4096",
           ""]
    fields = [("ops", "Op", lop), ("nodeFns", "Fn", lfn), ("tensorFns", "Fn", lfn), ("arithFns", "Fn", lfn),
              ("sharedFns", "Fn", lfn), ("basicFns", "Fn", lfn), ("fronts", "Fn", lfn), ("tmethods", "Fn", lfn)]
    for key, ty, r in fields:
        out.append(emit_list(key, ty, plain[key], r))
        if cache[key] != plain[key]:
            # only the entries that differ are emitted again
            diff = []
            for a, b in zip(plain[key], cache[key]):
                diff.append(b)
            if len(plain[key]) != len(cache[key]):
                out.append(emit_list(key + "Cache", ty, cache[key], r))
            else:
                names = []
                items = []
                for k, (a, b) in enumerate(zip(plain[key], cache[key])):
                    if a != b:
                        items.append((k, b))
                for k, b in items:
                    out.append("def %sCache_at_%d : %s :=\n  %s\n" % (key, k, ty, r(b)))
                # rebuild the list: same entries, differing ones replaced
                repl = " ".join("(%d, %sCache_at_%d)" % (k, key, k) for k, _ in items)
                out.append("def %sCache : List %s :=\n  (List.zip (List.range %s.length) %s).map fun (i, e) =>\n"
                           "    match [%s].lookup i with\n    | some r => r\n    | none => e\n"
                           % (key, ty, key, key, ", ".join("(%d, %sCache_at_%d)" % (k, key, k) for k, _ in items)))
        else:
            out.append("def %sCache : List %s := %s\n" % (key, ty, key))
    out.append("/-- PRIMITIV_USE_CACHE off (the default build). -/")
    out.append("def table : Table := ⟨ops, nodeFns, tensorFns, arithFns, sharedFns, basicFns, fronts, tmethods⟩")
    out.append("/-- PRIMITIV_USE_CACHE on. -/")
    out.append("def tableCache : Table := ⟨opsCache, nodeFnsCache, tensorFnsCache, arithFnsCache, sharedFnsCache, basicFnsCache, frontsCache, tmethodsCache⟩")
    out.append("")
    out.append("end Primitiv.Gen.OpTable")
    return "\n".join(out) + "\n"


def build_tables():
    return build_table(set()), build_table({"PRIMITIV_USE_CACHE"})


PIN = os.path.join(VERIF, ".cache", "optable.pin")


def pinned_by_other():
    """A running C04 check owns Gen/OpTable.lean (it pins the file while it builds and runs, because the
    regeneration step of every other check — possibly of another working tree — would rewrite it)."""
    try:
        pid = int(open(PIN).read().split()[0])
    except Exception:
        return False
    if pid == os.getpid():
        return False
    try:
        os.kill(pid, 0)
    except OSError:
        return False
    return True


def pin():
    """Returns False (and leaves the pin alone) when another running check already owns the table."""
    if pinned_by_other():
        return False
    os.makedirs(os.path.dirname(PIN), exist_ok=True)
    with open(PIN, "w") as f:
        f.write("%d\n%s\n" % (os.getpid(), repo()))
    return True


def unpin():
    try:
        if int(open(PIN).read().split()[0]) == os.getpid():
            os.remove(PIN)
    except Exception:
        pass


def generate(write_golden=False):
    """Regenerate lean/PrimitivModel/Gen/OpTable.lean from the working tree.
    The file is rewritten only when its content changes (keeps lake's cache)."""
    if pinned_by_other() and os.path.exists(OUT):
        return open(OUT).read()
    txt = render(build_tables())
    os.makedirs(os.path.dirname(OUT), exist_ok=True)
    old = open(OUT).read() if os.path.exists(OUT) else None
    if old != txt:
        tmp = OUT + ".tmp%d" % os.getpid()
        with open(tmp, "w") as f:
            f.write(txt)
        os.replace(tmp, OUT)
    if write_golden:
        os.makedirs(os.path.dirname(GOLDEN), exist_ok=True)
        with open(GOLDEN, "w") as f:
            f.write(txt)
    return txt


def unsupported_entries(tables=None):
    """[(where, source text)] of everything the translator did not understand."""
    tables = tables or build_tables()
    res = []
    for cfg, t in zip(("plain", "cache"), tables):
        def scan(where, body):
            for b in body:
                for c in b["pre"] + b["body"]:
                    if c["kind"] == "unsupported":
                        res.append((cfg + ":" + where, c["name"]))
        for o in t["ops"]:
            for k in ("argn", "retn"):
                if o[k][0] == "unsupported":
                    res.append((cfg + ":" + o["name"] + "." + k, o[k][1]))
            for k, v in o["ctorInit"]:
                if v.startswith("unsupported"):
                    res.append((cfg + ":" + o["name"] + ".ctor", k))
            scan(o["name"] + ".ctor", o["ctorBody"])
            scan(o["name"] + ".get_inner_values", o["innerBody"])
            for k in ("fwdShape", "fwd", "bwd"):
                scan(o["name"] + "." + k, o[k]["body"])
        for key in ("nodeFns", "tensorFns", "arithFns", "sharedFns", "basicFns", "fronts", "tmethods"):
            for f in t[key]:
                scan(key + ":" + f["name"], f["body"])
    return res


# --------------------------------------------------------------------------
# self-test: fixed snippets with expected output

def selftest():
    toks = preprocess("#define F(a, ...) g(a, {__VA_ARGS__})\n#define S(n) n##_fw(#n)\nF(x, y, z); F(w); S(abs);", set())
    assert toks == ["g", "(", "x", ",", "{", "y", ",", "z", "}", ")", ";", "g", "(", "w", ",", "{", "}", ")", ";",
                    "abs_fw", "(", '"abs"', ")", ";"], toks
    toks = preprocess("#ifdef A\nint a;\n#else\nint b;\n#endif\n", {"A"})
    assert toks == ["int", "a", ";"], toks
    toks = preprocess("#ifdef A\nint a;\n#else\nint b;\n#endif\n", set())
    assert toks == ["int", "b", ";"], toks
    e = parse_expr(tokenize("functions::exp(*x[0] - functions::broadcast(*y[0], dim_, n)) * 2"))
    assert e[0] == "binary" and e[1] == "*", e
    e = parse_expr(tokenize("i * span < (i + 1) * span"))
    assert e[0] == "binary" and e[1] == "<"
    e = parse_expr(tokenize("functions::input<Tensor>(shape_, data_, device_)"))
    assert e == ("call", ("id", "functions::input"), [("id", "shape_"), ("id", "data_"), ("id", "device_")], "Tensor", False), e
    ss = parse_body(tokenize("for (std::uint32_t i = 0; i < n_; ++i) { *y[i] = xs; } while (a) b;"))
    assert ss[0][0] == "for" and ss[1][0] == "unsupported", ss
    fl = Flat("rule", [{"name": "x", "ty": "shapeptrs"}, {"name": "y", "ty": "shapeptrs"}], [{"name": "dim_", "ty": "u32"}], "", set(), xkind="shape")
    br = fl.run(parse_body(tokenize("*y[0] = shape_ops::slice(*x[1], dim_, 0, 1);")))
    assert br == [{"pre": [], "cond": "", "body": [{"dst": "y0", "mode": "set", "kind": "shape", "name": "slice", "recv": "",
                                                    "args": ["x1", "dim_", "#0", "#1"], "cargs": [], "loop": "", "lvar": "", "ty": "shape"}]}], br
    assert fl.idx["x"] == 1 and fl.yset == [0]
    return True


if __name__ == "__main__":
    selftest()
    if len(sys.argv) > 1 and sys.argv[1] == "--golden":
        generate(write_golden=True)
    else:
        generate()
    us = unsupported_entries()
    for w, s in us:
        print("unsupported:", w, "::", s)
    print("wrote", OUT, "(%d unsupported entries)" % len(us))
