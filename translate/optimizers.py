"""Translator of the optimizer sources (C12, C15).

Reads  $VERIF_REPO/primitiv/core/optimizer.{h,cc} and optimizer_impl.{h,cc}
and writes lean/PrimitivModel/Gen/Optimizers.lean:

  (a) a data table per algorithm (fields, constructor defaults, statistic
      names with their has_stats guard, statistics / fields read by
      update_parameter, get_configs / set_configs key lists) and for the base
      class (settings, their config keys, setter guards);
  (b) shallow Lean definitions: `<alg>_update` (one `let` per C++ statement of
      update_parameter, elementwise), the dispatcher `updateElem`,
      `getConfigs` / `setConfigs`, `Base`, `baseGet*` / `baseSet`, and the
      setters with their guards.

Everything outside the parsed subset becomes `F.unsupported "<text>"` (or an
`unsupported` entry of the table), never a guess.  Pure Python 3 stdlib.
"""
import os, re, sys

HERE = os.path.dirname(os.path.abspath(__file__))
VERIF = os.path.dirname(HERE)
OUT = os.path.join(VERIF, "lean", "PrimitivModel", "Gen", "Optimizers.lean")
GOLDEN = os.path.join(HERE, "golden", "Optimizers.lean")


def repo():
    return os.environ.get("VERIF_REPO", "/repo")


# ------------------------------------------------------------------ lexing
def strip_comments(src):
    out, i, n = [], 0, len(src)
    while i < n:
        if src.startswith("//", i):
            while i < n and src[i] != "\n":
                i += 1
        elif src.startswith("/*", i):
            j = src.find("*/", i + 2)
            i = n if j < 0 else j + 2
            out.append(" ")
        elif src[i] == '"':
            j = i + 1
            while j < n and src[j] != '"':
                j += 2 if src[j] == "\\" else 1
            out.append(src[i:j + 1]); i = j + 1
        else:
            out.append(src[i]); i += 1
    return "".join(out)


def strip_preprocessor(src):
    """Drop preprocessor directives (with their continuation lines)."""
    out, cont = [], False
    for line in src.split("\n"):
        if cont or line.lstrip().startswith("#"):
            cont = line.rstrip().endswith("\\")
            continue
        out.append(line)
    return "\n".join(out)


TOK = re.compile(r"""
    (?P<str>"(?:[^"\\]|\\.)*")
  | (?P<num>(?:\d+\.\d*|\.\d+|\d+)(?:[eE][+-]?\d+)?[fFuUlL]*)
  | (?P<id>[A-Za-z_]\w*)
  | (?P<op>::|->|\+\+|--|\+=|-=|\*=|/=|==|!=|<=|>=|&&|\|\||<<|>>|[-+*/%=<>!&|^~?:;,.(){}\[\]])
  | (?P<ws>\s+)
""", re.X)


def lex(src):
    toks, i = [], 0
    while i < len(src):
        m = TOK.match(src, i)
        if not m:
            toks.append(("op", src[i])); i += 1; continue
        i = m.end()
        if m.lastgroup != "ws":
            toks.append((m.lastgroup, m.group(m.lastgroup)))
    return toks


def text(toks):
    """Canonical source text of a token list (whitespace-insensitive)."""
    s = ""
    for k, t in toks:
        if s and (s[-1].isalnum() or s[-1] in "_\"") and (t[0].isalnum() or t[0] in "_\""):
            s += " "
        s += t
    return s


def match(toks, i, open_, close):
    """index of the token closing the bracket opened at i"""
    assert toks[i][1] == open_, (toks[i], open_)
    d = 0
    for j in range(i, len(toks)):
        if toks[j][1] == open_:
            d += 1
        elif toks[j][1] == close:
            d -= 1
            if d == 0:
                return j
    raise ValueError("unbalanced " + open_)


def split_top(toks, sep):
    """split a token list at top-level separators"""
    parts, cur, d = [], [], 0
    for t in toks:
        if t[1] in "([{":
            d += 1
        elif t[1] in ")]}":
            d -= 1
        if d == 0 and t[1] == sep:
            parts.append(cur); cur = []
        else:
            cur.append(t)
    parts.append(cur)
    return parts


def statements(toks):
    """Split a function body into statements: (kind, tokens[, body])."""
    out, i = [], 0
    while i < len(toks):
        t = toks[i][1]
        if t in ("if", "for", "while"):
            j = match(toks, i + 1, "(", ")")
            head = toks[i + 2:j]
            if j + 1 < len(toks) and toks[j + 1][1] == "{":
                k = match(toks, j + 1, "{", "}")
                body = toks[j + 2:k]
                nxt = k + 1
            else:
                k = j + 1
                d = 0
                while k < len(toks) and not (toks[k][1] == ";" and d == 0):
                    d += toks[k][1] in "([{"
                    d -= toks[k][1] in ")]}"
                    k += 1
                body = toks[j + 1:k + 1]
                nxt = k + 1
            out.append((t, head, body)); i = nxt
        elif t == "{":
            k = match(toks, i, "{", "}")
            out.append(("block", toks[i + 1:k], None)); i = k + 1
        else:
            k, d = i, 0
            while k < len(toks) and not (toks[k][1] == ";" and d == 0):
                d += toks[k][1] in "([{"
                d -= toks[k][1] in ")]}"
                k += 1
            if k > i:
                out.append(("stmt", toks[i:k], None))
            i = k + 1
    return out


def unq(s):
    return s[1:-1]


# ------------------------------------------------------- expression parser
class Unsupported(Exception):
    pass


class Expr:
    """Recursive-descent parser of the arithmetic expression language of the
    update rules.  AST: ('num', text) ('var', name) ('bin', op, a, b) ('neg', a)
    ('call', name, [args]) ('stat', name) ('value',) ('grad',) ('epoch',)"""

    def __init__(self, toks):
        self.t, self.i = toks, 0

    def peek(self):
        return self.t[self.i][1] if self.i < len(self.t) else None

    def eat(self, x=None):
        if self.i >= len(self.t) or (x is not None and self.t[self.i][1] != x):
            raise Unsupported(text(self.t))
        self.i += 1
        return self.t[self.i - 1]

    def parse(self):
        e = self.add()
        if self.i != len(self.t):
            raise Unsupported(text(self.t))
        return e

    def add(self):
        e = self.mul()
        while self.peek() in ("+", "-"):
            op = self.eat()[1]
            e = ("bin", op, e, self.mul())
        return e

    def mul(self):
        e = self.unary()
        while self.peek() in ("*", "/"):
            op = self.eat()[1]
            e = ("bin", op, e, self.unary())
        return e

    def unary(self):
        if self.peek() == "-":
            self.eat()
            return ("neg", self.unary())
        if self.peek() == "+":
            self.eat()
            return self.unary()
        return self.atom()

    def qualified(self):
        name = self.eat()[1]
        while self.peek() == "::":
            self.eat()
            name += "::" + self.eat()[1]
        return name

    def args(self):
        self.eat("(")
        a = []
        if self.peek() != ")":
            a.append(self.add())
            while self.peek() == ",":
                self.eat()
                a.append(self.add())
        self.eat(")")
        return a

    def atom(self):
        if self.i >= len(self.t):
            raise Unsupported(text(self.t))
        k, t = self.t[self.i]
        if t == "(":
            self.eat()
            e = self.add()
            self.eat(")")
            return e
        if k == "num":
            self.eat()
            return ("num", t)
        if k == "id":
            name = self.qualified()
            if name == "param" and self.peek() == ".":
                self.eat()
                m = self.eat()[1]
                if m in ("value", "gradient"):
                    self.eat("("); self.eat(")")
                    return ("value",) if m == "value" else ("grad",)
                if m == "stats":
                    self.eat("(")
                    k2, s = self.eat()
                    if k2 != "str":
                        raise Unsupported(text(self.t))
                    self.eat(")")
                    return ("stat", unq(s))
                raise Unsupported(text(self.t))
            if self.peek() == "(":
                a = self.args()
                if name == "get_epoch" and not a:
                    return ("epoch",)
                return ("call", name, a)
            return ("var", name)
        raise Unsupported(text(self.t))


# ------------------------------------------------------------ Lean helpers
def lstr(s):
    return '"' + s.replace("\\", "\\\\").replace('"', '\\"') + '"'


def llist(xs):
    return "[" + ", ".join(xs) + "]"


def lpairs(ps):
    return llist("(%s, %s)" % (lstr(a), lstr(b)) for a, b in ps)


NUM_OK = {"0": "0", "1": "1", "0.0": "0", "1.0": "1", "0.": "0", "1.": "1",
          "0.0f": "0", "1.0f": "1", "0u": "0", "1u": "1"}


class Emit:
    """Lean text of an expression in an environment name -> ('nat'|'sc', lean name)."""

    def __init__(self, env):
        self.env = env
        self.fields_read = []
        self.stats_read = []
        self.reads_epoch = False
        self.unsupported = []

    def unsup(self, src):
        self.unsupported.append(src)
        return ("sc", "(F.unsupported %s)" % lstr(src))

    def ex(self, e, src):
        """-> (type, lean text)"""
        k = e[0]
        if k == "num":
            if e[1] in NUM_OK:
                return ("lit", NUM_OK[e[1]])
            return self.unsup(src)
        if k == "var":
            if e[1] in self.env:
                ty, nm, field = self.env[e[1]]
                if field and e[1] not in self.fields_read:
                    self.fields_read.append(e[1])
                return (ty, nm)
            return self.unsup(src)
        if k == "value":
            return ("sc", "p_value")
        if k == "grad":
            return ("sc", "p_grad")
        if k == "epoch":
            self.reads_epoch = True
            return ("nat", "epoch_")
        if k == "stat":
            if ("stat:" + e[1]) in self.env:
                return ("sc", self.env["stat:" + e[1]][1])
            return self.unsup(src)
        if k == "neg":
            ty, a = self.ex(e[1], src)
            if ty == "nat":
                return self.unsup(src)
            return ("sc", "(0 - %s)" % a)
        if k == "bin":
            ta, a = self.ex(e[2], src)
            tb, b = self.ex(e[3], src)
            if ta == "nat" or tb == "nat":
                # 32-bit unsigned arithmetic: only `+` is in the subset
                if e[1] == "+" and {ta, tb} <= {"nat", "lit"}:
                    return ("nat", "(add32 %s %s)" % (a, b))
                return self.unsup(src)
            return ("sc", "(%s %s %s)" % (a, e[1], b))
        if k == "call":
            name, args = e[1], e[2]
            if name in ("functions::sqrt", "std::sqrt") and len(args) == 1:
                ty, a = self.ex(args[0], src)
                if ty == "nat":
                    return self.unsup(src)
                return ("sc", "(F.sqrt %s)" % a)
            if name == "std::pow" and len(args) == 2:
                ta, a = self.ex(args[0], src)
                tb, b = self.ex(args[1], src)
                if ta != "nat" and tb == "nat":
                    return ("sc", "(F.pow %s %s)" % (a, b))
                return self.unsup(src)
            if name in ("functions::pown",) and len(args) == 2:
                ta, a = self.ex(args[0], src)
                tb, b = self.ex(args[1], src)
                if ta != "nat" and tb in ("nat", "lit"):
                    return ("sc", "(F.pow %s %s)" % (a, b))
                return self.unsup(src)
            return self.unsup(src)
        return self.unsup(src)


def san(name):
    return re.sub(r"\W", "_", name)


# ------------------------------------------------------ optimizer_impl.{h,cc}
def parse_classes(h_src, base="Optimizer"):
    """[(name, fields [(type, name)], ctor params [(type, name, default text)],
    inits [(field, param)])] for every `class X : public primitiv::Optimizer`."""
    toks = lex(strip_preprocessor(strip_comments(h_src)))
    res, i = [], 0
    while i < len(toks):
        if toks[i][1] == "class" and i + 2 < len(toks) and toks[i + 2][1] == ":":
            name = toks[i + 1][1]
            j = i + 2
            while toks[j][1] != "{" and toks[j][1] != ";":
                j += 1
            if toks[j][1] == ";":
                i = j; continue
            heads = text(toks[i + 3:j])
            k = match(toks, j, "{", "}")
            if heads.replace(" ", "").endswith(base) and "public" in heads:
                res.append(parse_class_body(name, toks[j + 1:k]))
            i = k
        i += 1
    return res


def parse_type(toks, i):
    """parse `float` | `std::uint32_t` | `const T &` at i -> (type text, next i) or None"""
    j = i
    while j < len(toks) and toks[j][1] in ("const", "explicit", "virtual", "inline", "static"):
        j += 1
    if j < len(toks) and toks[j][0] == "id":
        name = toks[j][1]; j += 1
        while j + 1 < len(toks) and toks[j][1] == "::":
            name += "::" + toks[j + 1][1]; j += 2
        while j < len(toks) and toks[j][1] in ("&", "*", "const"):
            j += 1
        return name, j
    return None


def parse_class_body(name, body):
    fields, ctor, inits, methods = [], None, [], {}
    i, depth0 = 0, 0
    unsupported = []
    while i < len(body):
        t = body[i][1]
        if t in ("public", "private", "protected") and body[i + 1][1] == ":":
            i += 2; continue
        # constructor
        j = i
        while body[j][1] in ("explicit", "inline"):
            j += 1
        if body[j][1] == name and body[j + 1][1] == "(":
            k = match(body, j + 1, "(", ")")
            params = []
            for p in split_top(body[j + 2:k], ","):
                if not p:
                    continue
                eq = [q for q, x in enumerate(p) if x[1] == "="]
                decl, dflt = (p[:eq[0]], p[eq[0] + 1:]) if eq else (p, None)
                pt = parse_type(decl, 0)
                params.append((pt[0] if pt else "?", decl[-1][1], text(dflt) if dflt is not None else None))
            m = k + 1
            init_toks = []
            if body[m][1] == ":":
                m += 1
                while body[m][1] != "{":
                    init_toks.append(body[m]); m += 1
            e = match(body, m, "{", "}")
            ctor_inits = []
            for it in split_top(init_toks, ","):
                if len(it) >= 3 and it[1][1] == "(" and it[-1][1] == ")":
                    ctor_inits.append((it[0][1], text(it[2:-1])))
                elif it:
                    unsupported.append("ctor-init " + text(it))
            if body[m + 1:e]:
                unsupported.append("ctor-body " + text(body[m + 1:e]))
            ctor, inits = params, ctor_inits
            i = e + 1
            continue
        if t in ("~", "virtual", "template", "using", "friend", "typedef"):
            # skip to end of declaration / definition
            while i < len(body) and body[i][1] not in (";", "{"):
                if body[i][1] == "(":
                    i = match(body, i, "(", ")")
                i += 1
            if i < len(body) and body[i][1] == "{":
                i = match(body, i, "{", "}")
            i += 1
            continue
        pt = parse_type(body, i)
        if pt and pt[1] < len(body) and body[pt[1]][0] == "id":
            nm = body[pt[1]][1]
            nxt = pt[1] + 1
            if body[nxt][1] == ";":
                fields.append((pt[0], nm)); i = nxt + 1; continue
            if body[nxt][1] == "(":
                k = match(body, nxt, "(", ")")
                params = [p for p in split_top(body[nxt + 1:k], ",") if p]
                m = k + 1
                while body[m][1] in ("const", "override", "noexcept"):
                    m += 1
                if body[m][1] == "{":
                    e = match(body, m, "{", "}")
                    methods[nm] = (pt[0], params, body[m + 1:e])
                    i = e + 1
                else:
                    while body[m][1] != ";":
                        m += 1
                    i = m + 1
                continue
        # anything else: skip one declaration
        while i < len(body) and body[i][1] not in (";", "{"):
            if body[i][1] == "(":
                i = match(body, i, "(", ")")
            i += 1
        if i < len(body) and body[i][1] == "{":
            i = match(body, i, "{", "}")
        i += 1
    return {"name": name, "fields": fields, "ctor": ctor, "inits": inits, "methods": methods, "unsupported": unsupported}


def parse_functions(cc_src):
    """{(Class, fn): body tokens} for `ret Class::fn(...) [const] { ... }`."""
    toks = lex(strip_preprocessor(strip_comments(cc_src)))
    res, i = {}, 0
    while i + 3 < len(toks):
        if toks[i][0] == "id" and toks[i + 1][1] == "::" and toks[i + 2][0] == "id" and toks[i + 3][1] == "(":
            k = match(toks, i + 3, "(", ")")
            m = k + 1
            while m < len(toks) and toks[m][1] in ("const", "override", "noexcept"):
                m += 1
            if m < len(toks) and toks[m][1] == "{":
                e = match(toks, m, "{", "}")
                res.setdefault((toks[i][1], toks[i + 2][1]), []).append((toks[i + 4:k], toks[m + 1:e]))
                i = e + 1
                continue
        i += 1
    return res


def parse_configure(body):
    """-> ([(stat name, guarded)], [unsupported texts])"""
    stats, unsup = [], []

    def add_call(toks, names):
        # param.add_stats(<name expr>, param.shape())
        s = text(toks)
        m = re.match(r'param\.add_stats\((.+),param\.shape\(\)\)$', s.replace(" ", ""))
        if not m:
            return None
        a = m.group(1)
        if a.startswith('"'):
            return [unq(a)]
        if a in names:
            return names[a]
        return None

    def walk(sts, names, guarded_for=None):
        for kind, head, b in sts:
            if kind == "stmt":
                s = text(head)
                m = re.match(r'const std::string (\w+)="([^"]*)"$', s.replace(" = ", "=").replace("string ", "string ", 1))
                m = m or re.match(r'const std::string (\w+)\s*=\s*"([^"]*)"$', s)
                if m:
                    names[m.group(1)] = [m.group(2)]
                    continue
                r = add_call(head, names)
                if r is not None:
                    for n in r:
                        stats.append((n, False))
                    continue
                unsup.append(s)
            elif kind == "if":
                hs = text(head).replace(" ", "")
                m = re.match(r'!param\.has_stats\((.+)\)$', hs)
                inner = statements(b)
                if m and len(inner) == 1 and inner[0][0] == "stmt":
                    a = m.group(1)
                    gn = [unq(a)] if a.startswith('"') else names.get(a)
                    r = add_call(inner[0][1], names)
                    if gn is not None and r == gn:
                        for n in r:
                            stats.append((n, True))
                        continue
                unsup.append("if(" + text(head) + "){" + text(b) + "}")
            elif kind == "for":
                hs = text(head)
                m = re.match(r'const char\s*\*\s*(\w+)\s*:\s*\{(.*)\}$', hs)
                if m:
                    lits = [x.strip() for x in m.group(2).split(",")]
                    if all(re.match(r'^"[^"]*"$', x) for x in lits):
                        for lit in lits:
                            n2 = dict(names); n2[m.group(1)] = [unq(lit)]
                            walk(statements(b), n2)
                        continue
                unsup.append("for(" + hs + "){" + text(b) + "}")
            elif kind == "block":
                walk(statements(head), dict(names))
            else:
                unsup.append(text(head))
    walk(statements(body), {})
    return stats, unsup


SCALAR_T = ("float", "double")
NAT_T = ("std::uint32_t", "uint32_t", "unsigned", "std::size_t")


def parse_update(cls, body, fields):
    """-> dict(lines [lean let-lines], slots [stat names in order], unsupported, fields_read, reads_epoch)"""
    env = {"scale": ("sc", "scale", False)}
    for ty, f in fields:
        env[f] = ("nat" if ty in NAT_T else "sc", f, True)
    em = Emit(env)
    lines, slots, writes = [], [], []
    alias = {}   # C++ reference name -> ('stat', slot) | ('grad',) | ('value',)

    def slot(name):
        if name not in slots:
            slots.append(name)
            env["stat:" + name] = ("sc", "st_" + san(name), False)
        return "st_" + san(name)

    def pre_scan(toks):
        for q in range(len(toks) - 5):
            if toks[q][1] == "param" and toks[q + 1][1] == "." and toks[q + 2][1] == "stats" and toks[q + 4][0] == "str":
                slot(unq(toks[q + 4][1]))
    pre_scan(body)

    def lvalue(toks):
        s = text(toks).replace(" ", "")
        if s == "param.value()":
            return "p_value"
        m = re.match(r'param\.stats\("([^"]*)"\)$', s)
        if m:
            return slot(m.group(1))
        if len(toks) == 1 and toks[0][1] in alias:
            a = alias[toks[0][1]]
            if a[0] == "stat":
                return a[1]
            if a[0] == "value":
                return "p_value"
            return None
        return None

    for kind, head, b in statements(body):
        src = text(head) if kind == "stmt" else kind + "(" + text(head) + "){" + text(b or []) + "}"
        if kind != "stmt":
            em.unsupported.append(src)
            lines.append("let p_value := F.unsupported %s" % lstr(src))
            continue
        # reference aliases
        m = re.match(r'(?:const )?Tensor\s*&\s*(\w+)\s*=\s*(.*)$', src)
        if m:
            rhs = m.group(2).replace(" ", "")
            if rhs == "param.gradient()":
                alias[m.group(1)] = ("grad",)
                env[m.group(1)] = ("sc", "p_grad", False)
                continue
            if rhs == "param.value()":
                alias[m.group(1)] = ("value",)
                env[m.group(1)] = ("sc", "p_value", False)
                continue
            m2 = re.match(r'param\.stats\("([^"]*)"\)$', rhs)
            if m2:
                sv = slot(m2.group(1))
                alias[m.group(1)] = ("stat", sv)
                env[m.group(1)] = ("sc", sv, False)
                continue
            em.unsupported.append(src)
            lines.append("let p_value := F.unsupported %s" % lstr(src))
            continue
        # local declarations `const T x = e`
        eqs = [q for q, x in enumerate(head) if x[1] == "="]
        if eqs and head[0][1] in ("const", "float", "double", "Tensor", "std", "auto"):
            decl, rhs = head[:eqs[0]], head[eqs[0] + 1:]
            pt = parse_type(decl, 0)
            if pt and pt[1] == len(decl) - 1 and decl[-1][0] == "id" and pt[0] in SCALAR_T + NAT_T + ("Tensor",):
                nm = decl[-1][1]
                try:
                    ty, lean = em.ex(Expr(rhs).parse(), src)
                except Unsupported:
                    ty, lean = em.unsup(src)
                want = "nat" if pt[0] in NAT_T else "sc"
                if ty == "lit":
                    ty = want
                if ty != want:
                    ty, lean = em.unsup(src)
                    if want == "nat":
                        lean = "0"
                        ty = "nat"
                lname = "l_" + nm
                env[nm] = (ty, lname, False)
                lines.append("let %s := %s" % (lname, lean))
                continue
            em.unsupported.append(src)
            lines.append("let p_value := F.unsupported %s" % lstr(src))
            continue
        # assignments
        q = next((q for q, x in enumerate(head) if x[1] in ("=", "+=", "-=", "*=", "/=")), None)
        if q is not None:
            lv = lvalue(head[:q])
            op = head[q][1]
            if lv is not None:
                try:
                    ty, lean = em.ex(Expr(head[q + 1:]).parse(), src)
                except Unsupported:
                    ty, lean = em.unsup(src)
                if ty == "nat":
                    ty, lean = em.unsup(src)
                if op == "=":
                    lines.append("let %s := %s" % (lv, lean))
                else:
                    lines.append("let %s := %s %s %s" % (lv, lv, op[0], lean))
                if lv not in writes:
                    writes.append(lv)
                continue
        em.unsupported.append(src)
        lines.append("let p_value := F.unsupported %s" % lstr(src))
    return {"lines": lines, "slots": slots, "unsupported": em.unsupported, "fields_read": em.fields_read,
            "reads_epoch": em.reads_epoch, "writes": writes}


def parse_get_configs(body, base_cls="Optimizer"):
    """-> (calls_base, [(map, key, field)], unsupported)"""
    calls_base, keys, unsup = False, [], []
    for kind, head, b in statements(body):
        s = text(head).replace(" ", "")
        if kind == "stmt" and re.match(base_cls + r'::get_configs\(uint_configs,float_configs\)$', s):
            calls_base = True
            continue
        m = kind == "stmt" and re.match(r'(uint|float)_configs\.insert\(std::make_pair\("([^"]*)",(\w+)\)\)$', s)
        if m:
            keys.append((m.group(1), m.group(2), m.group(3)))
            continue
        unsup.append(text(head))
    return calls_base, keys, unsup


def parse_set_configs(body, base_cls="Optimizer"):
    calls_base, keys, unsup = False, [], []
    for kind, head, b in statements(body):
        s = text(head).replace(" ", "")
        if kind == "stmt" and re.match(base_cls + r'::set_configs\(uint_configs,float_configs\)$', s):
            calls_base = True
            continue
        m = kind == "stmt" and re.match(r'SET_CONFIG\((\w+),(uint|float)_configs,"([^"]*)"\)$', s)
        if m:
            keys.append((m.group(2), m.group(3), m.group(1)))
            continue
        if kind == "block" or s == "":
            continue
        unsup.append(text(head))
    return calls_base, keys, unsup


def set_config_macro_ok(src):
    """The SET_CONFIG macro must be the `find / assign if present` form."""
    m = re.search(r'#define\s+SET_CONFIG\(dest,\s*cfg,\s*key\)\s*\{(.*?)\n\}', src, re.S)
    if not m:
        return False
    body = re.sub(r'[\s\\]+', "", m.group(1))
    return body == "constautoit=cfg.find(key);if(it!=cfg.end()){dest=it->second;}"


# ---------------------------------------------------------------- base class
CMP = {"<": "<", "<=": "≤", ">": ">", ">=": "≥"}


def parse_base(h_src, cc_src):
    toks = lex(strip_preprocessor(strip_comments(h_src)))
    i = 0
    info = None
    while i < len(toks):
        if toks[i][1] == "class" and toks[i + 1][1] == "Optimizer" and toks[i + 2][1] == ":":
            j = i
            while toks[j][1] != "{":
                j += 1
            k = match(toks, j, "{", "}")
            info = parse_class_body("Optimizer", toks[j + 1:k])
            break
        i += 1
    if info is None:
        raise RuntimeError("class Optimizer not found")
    fields = [(ty, nm) for ty, nm in info["fields"] if ty in SCALAR_T + NAT_T]
    fnames = [nm for _, nm in fields]
    ftype = dict((nm, ty) for ty, nm in fields)
    unsup = list(info["unsupported"])
    inits = {}
    for f, v in info["inits"]:
        if f in fnames and v in NUM_OK:
            inits[f] = NUM_OK[v]
        else:
            unsup.append("ctor-init %s(%s)" % (f, v))
    setters = []
    for nm, (ret, params, body) in sorted(info["methods"].items()):
        if not nm.startswith("set_") or nm == "set_configs":
            continue
        if len(params) != 1:
            unsup.append("setter " + nm); continue
        pt = parse_type(params[0], 0)
        pname = params[0][-1][1]
        guards, assigns, bad = [], [], []
        for kind, head, b in statements(body):
            if kind == "if":
                hs = head
                thr = text(b).startswith("PRIMITIV_THROW_ERROR")
                if thr and len(hs) == 3 and hs[0][1] == pname and hs[1][1] in CMP and hs[2][1] in NUM_OK:
                    guards.append((hs[1][1], NUM_OK[hs[2][1]]))
                    continue
                bad.append("if(" + text(head) + ")" + text(b))
            elif kind == "stmt" and len(head) == 3 and head[1][1] == "=" and head[0][1] in fnames and head[2][1] == pname:
                assigns.append(head[0][1])
            else:
                bad.append(text(head))
        setters.append({"name": nm, "ptype": pt[0] if pt else "?", "param": pname, "guards": guards,
                        "assigns": assigns, "unsupported": bad})
        unsup += ["setter %s: %s" % (nm, x) for x in bad]
    fns = parse_functions(cc_src)
    g = fns.get(("Optimizer", "get_configs"))
    s = fns.get(("Optimizer", "set_configs"))
    gk = parse_get_configs(g[0][1]) if g else (False, [], ["get_configs missing"])
    sk = parse_set_configs(s[0][1]) if s else (False, [], ["set_configs missing"])
    unsup += gk[2] + sk[2]
    if not set_config_macro_ok(cc_src):
        unsup.append("SET_CONFIG macro of optimizer.cc is not the find/assign form")
    return {"fields": fields, "inits": inits, "setters": setters, "get": gk[1], "set": sk[1], "unsupported": unsup,
            "ftype": ftype}


# ------------------------------------------------------------------- driver
def analyse():
    r = repo()
    rd = lambda p: open(os.path.join(r, "primitiv", "core", p)).read()
    h, cc, bh, bcc = rd("optimizer_impl.h"), rd("optimizer_impl.cc"), rd("optimizer.h"), rd("optimizer.cc")
    base = parse_base(bh, bcc)
    fns = parse_functions(cc)
    algs = []
    for c in parse_classes(h):
        name = c["name"]
        fields = [(ty, nm) for ty, nm in c["fields"]]
        unsup = list(c["unsupported"])
        fnames = [nm for _, nm in fields]
        defaults = {}
        ctor = c["ctor"] or []
        pd = dict((p[1], p[2]) for p in ctor)
        for f, v in c["inits"]:
            if f in fnames and v in pd:
                defaults[f] = (v, pd[v])
            else:
                unsup.append("ctor-init %s(%s)" % (f, v))
        for f in fnames:
            if f not in defaults:
                unsup.append("field %s is not initialised from a constructor parameter" % f)
        for ty, f in fields:
            if ty not in SCALAR_T:
                unsup.append("field %s has type %s" % (f, ty))
        def body(fn):
            x = fns.get((name, fn))
            if not x:
                unsup.append("%s::%s not found" % (name, fn))
                return []
            return x[0][1]
        stats, u1 = parse_configure(body("configure_parameter"))
        upd = parse_update(name, body("update_parameter"), fields)
        gb, gk, u2 = parse_get_configs(body("get_configs"))
        sb, sk, u3 = parse_set_configs(body("set_configs"))
        if not gb:
            u2.append("get_configs does not call Optimizer::get_configs")
        if not sb:
            u3.append("set_configs does not call Optimizer::set_configs")
        for m, k, f in gk + sk:
            if m != "float" or f not in fnames:
                unsup.append("config %s -> %s (%s)" % (k, f, m))
        algs.append({"name": name, "fields": fields, "ctor": ctor, "defaults": defaults, "stats": stats,
                     "update": upd, "get": gk, "set": sk,
                     "unsupported": unsup + u1 + upd["unsupported"] + u2 + u3})
    if not set_config_macro_ok(cc):
        for a in algs:
            a["unsupported"].append("SET_CONFIG macro of optimizer_impl.cc is not the find/assign form")
    return base, algs


def lean_num(txt):
    """Lean literal of a C++ floating literal (default argument)."""
    t = txt.rstrip("fFlL")
    if re.match(r'^(\d+\.\d*|\.\d+|\d+)([eE][+-]?\d+)?$', t):
        if t.startswith("."):
            t = "0" + t
        t = re.sub(r'\.(?=$|[eE])', ".0", t)
        return "(%s : α)" % t
    return None


def render(base, algs):
    o = []
    w = o.append
    w("/- GENERATED by /verif/translate/optimizers.py from primitiv/core/optimizer.{h,cc} and")
    w("   optimizer_impl.{h,cc} of the working tree.  Do not edit; not tracked by git. -/")
    w("import PrimitivModel.Model.Scalar")
    w("set_option linter.unusedVariables false")
    w("namespace Primitiv.Gen.Opt")
    w("open Primitiv.Opt")
    w("")
    w("inductive Kind where")
    for a in algs:
        w("  | %s" % a["name"])
    w("  deriving DecidableEq, Repr, Inhabited")
    w("")
    w("def Kind.all : List Kind := " + llist("." + a["name"] for a in algs))
    w("def Kind.name : Kind → String")
    for a in algs:
        w("  | .%s => %s" % (a["name"], lstr(a["name"])))
    w("def Kind.ofName? (s : String) : Option Kind := Kind.all.find? (fun k => k.name == s)")
    w("")
    w("/-- (a) data table -/")
    w("structure Table where")
    w("  name : String")
    w("  fields : List String")
    w("  ctorDefaults : List (String × String)")
    w("  stats : List (String × Bool)")
    w("  statsUsed : List String")
    w("  statsWritten : List String")
    w("  fieldsRead : List String")
    w("  readsEpoch : Bool")
    w("  getKeys : List (String × String)")
    w("  setKeys : List (String × String)")
    w("  unsupported : List String")
    w("")
    w("def table : Kind → Table")
    for a in algs:
        u = a["update"]
        w("  | .%s => {" % a["name"])
        w("      name := %s," % lstr(a["name"]))
        w("      fields := %s," % llist(lstr(f) for _, f in a["fields"]))
        w("      ctorDefaults := %s," % lpairs((f, a["defaults"][f][1] or "") for _, f in a["fields"] if f in a["defaults"]))
        w("      stats := %s," % llist("(%s, %s)" % (lstr(n), "true" if g else "false") for n, g in a["stats"]))
        w("      statsUsed := %s," % llist(lstr(s) for s in u["slots"]))
        w("      statsWritten := %s," % llist(lstr(s) for s in u["slots"] if ("st_" + san(s)) in u["writes"]))
        w("      fieldsRead := %s," % llist(lstr(f) for f in u["fields_read"]))
        w("      readsEpoch := %s," % ("true" if u["reads_epoch"] else "false"))
        w("      getKeys := %s," % lpairs((k, f) for _, k, f in a["get"]))
        w("      setKeys := %s," % lpairs((k, f) for _, k, f in a["set"]))
        w("      unsupported := %s }" % llist(lstr(s) for s in a["unsupported"]))
    w("")
    w("/-- statistic names created by `configure_parameter`, in order -/")
    w("def statNames (k : Kind) : List String := (table k).stats.map (·.1)")
    w("/-- every `add_stats` of `configure_parameter` is under `if (!param.has_stats(name))` -/")
    w("def statGuarded (k : Kind) : Bool := (table k).stats.all (·.2)")
    w("/-- statistics read through `param.stats(\"…\")` by `update_parameter`, in slot order -/")
    w("def statsUsed (k : Kind) : List String := (table k).statsUsed")
    w("def arity (k : Kind) : Nat := (table k).fields.length")
    w("")
    # base class
    bf = base["fields"]
    w("/-- settings of the base class `Optimizer` (data members, declaration order) -/")
    w("structure Base (α : Type) where")
    for ty, nm in bf:
        w("  %s : %s" % (nm, "Nat" if ty in NAT_T else "α"))
    w("")
    w("def baseFieldNames : List String := " + llist(lstr(nm) for _, nm in bf))
    w("def baseGetKeys : List (String × String) := " + lpairs((k, f) for _, k, f in base["get"]))
    w("def baseSetKeys : List (String × String) := " + lpairs((k, f) for _, k, f in base["set"]))
    w("def baseUnsupported : List String := " + llist(lstr(s) for s in base["unsupported"]))
    w("/-- setter name, comparison that throws, assigned member -/")
    w("def setterGuards : List (String × List String × List String) := " + llist(
        "(%s, %s, %s)" % (lstr(s["name"]), llist(lstr("%s %s %s" % (s["param"], op, v)) for op, v in s["guards"]),
                          llist(lstr(x) for x in s["assigns"])) for s in base["setters"]))
    w("")
    w("section")
    w("variable {α : Type} [Add α] [Sub α] [Mul α] [Div α] [OfNat α 0] [OfNat α 1]")
    w("variable [LT α] [LE α] [DecidableLT α] [DecidableLE α]")
    w("")
    w("/-- the constructor `Optimizer()` -/")
    w("def Base.init : Base α := { " + ", ".join(
        "%s := %s" % (nm, base["inits"].get(nm, "0")) for _, nm in bf) + " }")
    w("")
    gu = [(k, f) for m, k, f in base["get"] if m == "uint"]
    gf = [(k, f) for m, k, f in base["get"] if m == "float"]
    w("/-- `Optimizer::get_configs`: the uint32 map -/")
    w("def Base.getU (b : Base α) : List (String × Nat) := " + llist("(%s, b.%s)" % (lstr(k), f) for k, f in gu))
    w("/-- `Optimizer::get_configs`: the float map -/")
    w("def Base.getF (b : Base α) : List (String × α) := " + llist("(%s, b.%s)" % (lstr(k), f) for k, f in gf))
    w("/-- `Optimizer::set_configs` (a member is assigned only when its key is present) -/")
    w("def Base.set (cu : List (String × Nat)) (cf : List (String × α)) (b : Base α) : Base α :=")
    for m, k, f in base["set"]:
        w("  let b := { b with %s := (%s.lookup %s).getD b.%s }" % (f, "cu" if m == "uint" else "cf", lstr(k), f))
    w("  b")
    w("")
    for s in base["setters"]:
        pty = "Nat" if s["ptype"] in NAT_T else "α"
        w("/-- `Optimizer::%s`; `none` = throws -/" % s["name"])
        w("def Base.%s (%s : %s) (b : Base α) : Option (Base α) :=" % (s["name"], s["param"], pty))
        body = "some { b with " + ", ".join("%s := %s" % (f, s["param"]) for f in s["assigns"]) + " }" if s["assigns"] else "some b"
        if s["unsupported"]:
            body = "none /- unsupported: %s -/" % "; ".join(s["unsupported"]).replace("-/", "- /")
        for op, v in reversed(s["guards"]):
            body = "if %s %s %s then none else %s" % (s["param"], CMP[op], v, body)
        w("  " + body)
        w("")
    # update rules
    for a in algs:
        u = a["update"]
        fl = " ".join(f for _, f in a["fields"])
        sl = " ".join("st_" + san(s) for s in u["slots"])
        w("/-- `%s::update_parameter`, one `let` per statement, elementwise; returns (value, statistics) -/" % a["name"])
        w("def %s_update (F : Fns α)%s (scale : α) (epoch_ : Nat) (p_grad p_value : α)%s : α × List α :=" % (
            a["name"].lower(), (" (%s : α)" % fl) if fl else "", (" (%s : α)" % sl) if sl else ""))
        for ln in u["lines"]:
            w("  " + ln)
        w("  (p_value, %s)" % llist("st_" + san(s) for s in u["slots"]))
        w("")
    w("/-- dispatcher: hyper-parameters in member order, statistics in `statsUsed` order -/")
    w("def updateElem (F : Fns α) (k : Kind) (fields : List α) (scale : α) (epoch_ : Nat) (p_grad p_value : α)")
    w("    (stats : List α) : α × List α :=")
    w("  match k, fields, stats with")
    for a in algs:
        u = a["update"]
        fl = [f for _, f in a["fields"]]
        sl = ["st_" + san(s) for s in u["slots"]]
        w("  | .%s, %s, %s => %s_update F %s scale epoch_ p_grad p_value %s" % (
            a["name"], llist(fl), llist(sl), a["name"].lower(), " ".join(fl), " ".join(sl)))
    w("  | _, _, _ => (p_value, stats)")
    w("")
    w("/-- `get_configs` of the subclass (float map; the base part is `Base.getF`) -/")
    w("def getConfigs (k : Kind) (fields : List α) : List (String × α) :=")
    w("  match k, fields with")
    for a in algs:
        fl = [f for _, f in a["fields"]]
        w("  | .%s, %s => %s" % (a["name"], llist(fl), llist("(%s, %s)" % (lstr(k), f) for _, k, f in a["get"] if f in fl)))
    w("  | _, _ => []")
    w("")
    w("/-- `set_configs` of the subclass: sequential `SET_CONFIG`s -/")
    w("def setConfigs (k : Kind) (cf : List (String × α)) (fields : List α) : List α :=")
    w("  match k, fields with")
    for a in algs:
        fl = [f for _, f in a["fields"]]
        w("  | .%s, %s =>" % (a["name"], llist(fl)))
        for _, k, f in a["set"]:
            if f in fl:
                w("    let %s := (cf.lookup %s).getD %s" % (f, lstr(k), f))
        w("    %s" % llist(fl))
    w("  | _, fs => fs")
    w("end")
    w("")
    w("/-- constructor defaults (the default arguments of the constructors) -/")
    w("def defaults {α : Type} [OfScientific α] (F : Fns α) : Kind → List α")
    for a in algs:
        vals = []
        for _, f in a["fields"]:
            d = a["defaults"].get(f)
            ln = lean_num(d[1]) if d and d[1] is not None else None
            vals.append(ln if ln else "F.unsupported %s" % lstr("default of " + f))
        w("  | .%s => %s" % (a["name"], llist(vals)))
    w("")
    w("end Primitiv.Gen.Opt")
    return "\n".join(o) + "\n"


def generate(check_only=False):
    base, algs = analyse()
    txt = render(base, algs)
    os.makedirs(os.path.dirname(OUT), exist_ok=True)
    old = open(OUT).read() if os.path.exists(OUT) else None
    if old != txt and not check_only:
        tmp = OUT + ".tmp%d" % os.getpid()
        with open(tmp, "w") as f:
            f.write(txt)
        os.replace(tmp, OUT)
    return txt


def table():
    """The data table as Python objects (used by the generators in props/)."""
    base, algs = analyse()
    return base, algs


def differs_from_golden():
    if not os.path.exists(GOLDEN):
        return None
    return open(GOLDEN).read() != generate(check_only=True)


SELFTEST = [
    ("m -= (scale * eta_) * param.gradient()", "((scale * eta_) * p_grad)"),
    ("functions::sqrt((m1 + eps_) / (m2 + eps_)) * g", None),
    ("1 - std::pow(beta1_, epoch)", None),
]


def selftest():
    """same input -> same output; whitespace / comment insensitivity"""
    a = generate(check_only=True)
    b = generate(check_only=True)
    assert a == b
    e = Emit({"scale": ("sc", "scale", False), "eta_": ("sc", "eta_", True)})
    ty, s = e.ex(Expr(lex("(scale * eta_) * param.gradient()")).parse(), "x")
    assert s == "((scale * eta_) * p_grad)", s
    ty, s = e.ex(Expr(lex(strip_comments("(scale  /* c */ * eta_)\n * param.gradient ( )"))).parse(), "x")
    assert s == "((scale * eta_) * p_grad)", s
    ty, s = e.ex(Expr(lex("functions::exp(scale)")).parse(), "functions::exp(scale)")
    assert "unsupported" in s
    return True


if __name__ == "__main__":
    if len(sys.argv) > 1 and sys.argv[1] == "--golden":
        os.makedirs(os.path.dirname(GOLDEN), exist_ok=True)
        open(GOLDEN, "w").write(generate(check_only=True))
        print("golden written")
    elif len(sys.argv) > 1 and sys.argv[1] == "--selftest":
        print("selftest", selftest())
    else:
        sys.stdout.write(generate())
