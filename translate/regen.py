"""Regenerate every Gen/*.lean from /repo's working tree (called by ./setup and
at the start of every check)."""
import glob, importlib, os, sys, traceback

HERE = os.path.dirname(os.path.abspath(__file__))


def regenerate(verbose=False):
    res = {}
    for f in sorted(glob.glob(os.path.join(HERE, "*.py"))):
        name = os.path.basename(f)[:-3]
        if name in ("__init__", "regen") or name.startswith("_"):
            continue
        try:
            mod = importlib.import_module("translate." + name)
            if hasattr(mod, "generate"):
                res[name] = mod.generate()
            elif hasattr(mod, "regenerate"):
                res[name] = mod.regenerate()
        except Exception as e:  # a translator that cannot parse the tree: the checks that need it report it
            res[name] = "FAILED: %r" % (e,)
            if verbose:
                traceback.print_exc()
    return res


if __name__ == "__main__":
    sys.path.insert(0, os.path.dirname(HERE))
    for k, v in regenerate(True).items():
        print(k, str(v)[:200])
