"""Translator of the `rng` family (property C17).

Reads, from the primitiv working tree (env VERIF_REPO, default /repo):

  primitiv/core/device.cc              Device::random_{bernoulli,uniform,normal,log_normal}
                                       -> guard_<f> (which parameters throw) and Device_<f> (front end)
  primitiv/core/random.h               DefaultRandomizer::fill_* -> fill_<k>_dist (which libstdc++ distribution
                                       object, built from which parameters) and fill_<k>_elem (what is stored
                                       for one draw; the (lower, upper] fix-up of fill_uniform)
  primitiv/devices/{naive,eigen}/ops/random_*.cc   -> backend_calls (table: which fill_* gets which arguments)
  primitiv/core/initializer_impl.{h,cc}  <Class>::apply -> init_<Class> (checks, fan_in/fan_out, bound/sd, final call)
  primitiv/contrib/functions.h         dropout -> dropout

and writes lean/PrimitivModel/Gen/Rng.lean: shallow Lean definitions over the
scalar interface `Primitiv.Rng.Sc` (Model/RngBase.lean).  Pure Python 3
standard library.  Text outside the parsed subset becomes `unsupportedBool
"<text>"` / `unsupportedVal "<text>"` (opaque constants no theorem can
discharge) – never a guess.  Deterministic; insensitive to white space,
comments and line breaks.
"""
import os, re, sys

HERE = os.path.dirname(os.path.abspath(__file__))
VERIF = os.path.dirname(HERE)
OUT = os.path.join(VERIF, "lean", "PrimitivModel", "Gen", "Rng.lean")
GOLDEN = os.path.join(HERE, "golden", "Rng.lean")


def repo():
    return os.environ.get("VERIF_REPO", "/repo")


class Unsupported(Exception):
    pass


# ----------------------------------------------------------------- lexing
def strip_comments(src):
    out, i, n = [], 0, len(src)
    while i < n:
        c = src[i]
        if src.startswith("//", i):
            while i < n and src[i] != "\n":
                i += 1
        elif src.startswith("/*", i):
            j = src.find("*/", i + 2)
            i = n if j < 0 else j + 2
            out.append(" ")
        elif c == '"':
            j = i + 1
            while j < n and src[j] != '"':
                j += 2 if src[j] == "\\" else 1
            out.append(src[i:j + 1]); i = j + 1
        else:
            out.append(c); i += 1
    return "".join(out)


TOKEN = re.compile(r"""
    (?P<str>"(?:\\.|[^"\\])*")
  | (?P<num>(?:\d+\.\d*|\.\d+|\d+)(?:[eE][-+]?\d+)?[fFuUlL]*)
  | (?P<id>[A-Za-z_]\w*(?:\s*::\s*[A-Za-z_]\w*)*)
  | (?P<op>\+\+|--|<<|>>|<=|>=|==|!=|&&|\|\||->|[-+*/%<>=!?:;,.(){}\[\]&|~^])
  | (?P<ws>\s+)
""", re.X)


def tokenize(src):
    toks, i = [], 0
    while i < len(src):
        m = TOKEN.match(src, i)
        if not m:
            raise Unsupported("cannot tokenize: " + src[i:i + 30])
        i = m.end()
        k = m.lastgroup
        if k == "ws":
            continue
        t = m.group(k)
        if k == "id":
            t = re.sub(r"\s+", "", t)
        toks.append((k, t))
    return toks


def norm(src):
    """Canonical one-line rendering of a piece of C++ text (for `unsupported`)."""
    return " ".join(t for _, t in tokenize(strip_comments(src)))


# ---------------------------------------------------------------- parsing
class P:
    def __init__(self, toks):
        self.t, self.i = toks, 0

    def peek(self, k=0):
        return self.t[self.i + k] if self.i + k < len(self.t) else ("eof", "")

    def at(self, text, k=0):
        return self.peek(k)[1] == text and self.peek(k)[0] != "str"

    def next(self):
        tok = self.peek(); self.i += 1; return tok

    def expect(self, text):
        if not self.at(text):
            raise Unsupported("expected `%s` at `%s`" % (text, " ".join(t for _, t in self.t[self.i:self.i + 6])))
        self.i += 1

    def eof(self):
        return self.i >= len(self.t)

    # expressions -------------------------------------------------------
    def expr(self):
        c = self.lor()
        if self.at("?"):
            self.next(); a = self.expr(); self.expect(":"); b = self.expr()
            return ("tern", c, a, b)
        return c

    def binl(self, sub, ops):
        a = sub()
        while self.peek()[0] == "op" and self.peek()[1] in ops:
            op = self.next()[1]; b = sub(); a = ("bin", op, a, b)
        return a

    def lor(self): return self.binl(self.land, ("||",))
    def land(self): return self.binl(self.equ, ("&&",))
    def equ(self): return self.binl(self.rel, ("==", "!="))
    def rel(self): return self.binl(self.addi, ("<", ">", "<=", ">="))
    def addi(self): return self.binl(self.mult, ("+", "-"))
    def mult(self): return self.binl(self.unary, ("*", "/"))

    def unary(self):
        if self.peek()[0] == "op" and self.peek()[1] in ("-", "!"):
            op = self.next()[1]
            return ("un", op, self.unary())
        return self.postfix()

    def args(self):
        self.expect("(")
        a = []
        if not self.at(")"):
            a.append(self.expr())
            while self.at(","):
                self.next(); a.append(self.expr())
        self.expect(")")
        return a

    def postfix(self):
        e = self.primary()
        while True:
            if self.at("("):
                e = ("call", e, self.args())
            elif self.at("["):
                self.next(); ix = self.expr(); self.expect("]"); e = ("index", e, ix)
            elif self.at("."):
                self.next(); k, name = self.next()
                if k != "id":
                    raise Unsupported("member name")
                e = ("member", e, name)
            else:
                return e

    def primary(self):
        k, t = self.peek()
        if k == "num":
            self.next(); return ("num", t)
        if k == "id":
            self.next()
            # name<Type>( ... : explicit template argument
            if self.at("<") and self.peek(1)[0] == "id" and self.at(">", 2) and self.at("(", 3):
                targ = self.peek(1)[1]
                self.i += 3
                return ("id", t + "<" + targ + ">")
            return ("id", t)
        if self.at("("):
            self.next(); e = self.expr(); self.expect(")"); return e
        raise Unsupported("unexpected token `%s`" % t)

    # statements --------------------------------------------------------
    def skip_balanced(self):
        self.expect("(")
        d = 1
        while d:
            k, t = self.next()
            if k == "eof":
                raise Unsupported("unbalanced")
            if k == "op" and t == "(":
                d += 1
            elif k == "op" and t == ")":
                d -= 1

    def type_prefix(self):
        """Recognise `[const] T [&|*] name` at the cursor; returns (type, name) and leaves
        the cursor after the name, or None (cursor unchanged)."""
        j = self.i
        if self.at("const"):
            self.i += 1
        k, t = self.peek()
        types = {"float": "f32", "double": "f64", "std::uint32_t": "u32", "std::size_t": "size", "bool": "bool",
                 "Shape": "shape", "Tensor": "tensor", "Var": "var", "std::bernoulli_distribution": "dist"}
        ty = None
        if k == "id" and t in types:
            ty = types[t]; self.i += 1
        elif k == "id" and t in ("std::uniform_real_distribution", "std::normal_distribution", "std::lognormal_distribution") \
                and self.at("<", 1) and self.peek(2) == ("id", "float") and self.at(">", 3):
            ty = "dist"; self.i += 4
        if ty is None:
            self.i = j; return None
        while self.at("&") or self.at("*"):
            self.i += 1
        k, name = self.peek()
        if k != "id" or "::" in name:
            self.i = j; return None
        self.i += 1
        return (ty, name)

    def dist_text(self, j0):
        return "".join(t for _, t in self.t[j0:self.i - 1]).replace("const", "")

    def block(self):
        if self.at("{"):
            self.next(); ss = []
            while not self.at("}"):
                ss.append(self.stmt())
            self.next(); return ss
        return [self.stmt()]

    def stmt(self):
        if self.at("if"):
            self.next(); self.expect("("); c = self.expr(); self.expect(")")
            return ("if", c, self.block())
        if self.at("return"):
            self.next(); e = self.expr(); self.expect(";"); return ("return", e)
        if self.at("PRIMITIV_THROW_ERROR"):
            self.next(); self.skip_balanced(); self.expect(";"); return ("throw",)
        if self.at("for"):
            self.next(); self.expect("(")
            tp = self.type_prefix()
            if not tp or tp[0] != "size":
                raise Unsupported("for header")
            v = tp[1]
            self.expect("="); z = self.next()
            if z != ("num", "0"):
                raise Unsupported("for start")
            self.expect(";")
            if self.next() != ("id", v): raise Unsupported("for cond")
            self.expect("<"); k, bound = self.next()
            if k != "id": raise Unsupported("for bound")
            self.expect(";"); self.expect("++")
            if self.next() != ("id", v): raise Unsupported("for step")
            self.expect(")")
            return ("for", v, bound, self.block())
        j0 = self.i
        tp = self.type_prefix()
        if tp:
            ty, name = tp
            if ty == "dist":
                tyname = self.dist_text(j0)
                a = self.args(); self.expect(";")
                return ("dist", tyname, name, a)
            self.expect("="); e = self.expr(); self.expect(";")
            return ("let", ty, name, e)
        lhs = self.expr()
        if self.at("="):
            self.next(); rhs = self.expr(); self.expect(";")
            return ("assign", lhs, rhs)
        self.expect(";")
        return ("expr", lhs)


def parse_params(text):
    ps = []
    text = text.strip()
    if not text:
        return ps
    for part in text.split(","):
        p = P(tokenize(part))
        tp = p.type_prefix()
        if not tp or not p.eof():
            raise Unsupported("parameter `%s`" % part.strip())
        ps.append(tp)
    return ps


def find_function(src, header_re):
    """src: comment-stripped text. Returns (params text, body text, whole text) of the first definition whose
    header matches `header_re` (a regex ending just before the opening parenthesis)."""
    for m in re.finditer(header_re + r"\s*\(", src):
        i = m.end(); d = 1
        while d and i < len(src):
            d += {"(": 1, ")": -1}.get(src[i], 0); i += 1
        params = src[m.end():i - 1]
        m2 = re.match(r"\s*(?:const\s*)?(?:override\s*)?\{", src[i:])
        if not m2:
            continue       # a declaration
        j = i + m2.end(); d = 1
        while d and j < len(src):
            d += {"{": 1, "}": -1}.get(src[j], 0); j += 1
        return params, src[i + m2.end():j - 1], src[m.start():j]
    return None


# --------------------------------------------------------------- emitting
KEYWORDS = {"at", "from", "end", "in", "do", "then", "else", "if", "let", "have", "show", "fun", "by", "open", "with"}


def ident(n):
    return "«%s»" % n if n in KEYWORDS else n


def lstr(s):
    return '"' + s.replace("\\", "\\\\").replace('"', '\\"') + '"'


class Em:
    """Expression emitter with the (small) type discipline of the C++ text."""

    def __init__(self, env):
        self.env = dict(env)          # C++ name -> (lean text, type)
        self.effects = []             # [(tmp name, lean monadic text)]

    def num(self, t):
        t0 = t.rstrip("fFuUlL")
        if re.fullmatch(r"\d+", t0):
            return (t0, "int")
        m = re.fullmatch(r"(\d+)\.0*", t0)
        if m:
            return ("(S.ofNat %s)" % m.group(1), "f32" if t[-1:] in "fF" else "f64")
        raise Unsupported("literal " + t)

    def to_f(self, x):
        txt, ty = x
        if ty == "int":
            return "(S.ofNat %s)" % txt
        if ty == "u32":
            return "(S.ofNat %s)" % txt
        if ty in ("f32", "f64"):
            return txt
        raise Unsupported("not a scalar: " + txt)

    def e(self, a):
        k = a[0]
        if k == "num":
            return self.num(a[1])
        if k == "id":
            if a[1] in self.env:
                return self.env[a[1]]
            raise Unsupported("unknown identifier " + a[1])
        if k == "un":
            x = self.e(a[2])
            if a[1] == "!":
                if x[1] != "bool": raise Unsupported("! on non-bool")
                return ("(!%s)" % x[0], "bool")
            if x[1] in ("f32", "f64"):
                return ("(S.neg %s)" % x[0], x[1])
            raise Unsupported("unary minus on " + x[1])
        if k == "tern":
            c, x, y = self.e(a[1]), self.e(a[2]), self.e(a[3])
            if c[1] != "bool" or x[1] != y[1]: raise Unsupported("?: types")
            return ("(if %s then %s else %s)" % (c[0], x[0], y[0]), x[1])
        if k == "index":
            o, ix = self.e(a[1]), self.e(a[2])
            if o[1] == "shape" and ix[1] == "int":
                return ("(%s.get %s)" % (o[0], ix[0]), "u32")
            raise Unsupported("index")
        if k == "call":
            return self.call(a)
        if k == "member":
            raise Unsupported("member access without call")
        if k == "bin":
            return self.bin(a[1], self.e(a[2]), self.e(a[3]))
        raise Unsupported(k)

    def call(self, a):
        fn, args = a[1], a[2]
        if fn[0] == "member":
            obj, name = fn[1], fn[2]
            o = self.e(obj)
            if o[1] in ("tensor", "var") and name == "shape" and not args:
                return ("%s_shape" % o[0], "shape") if o[1] == "tensor" else ("(shapeof %s)" % o[0], "varshape:" + o[0])
            if o[1] in ("tensor", "var") and name == "device" and not args:
                return ("%s_device" % o[0], "device:" + o[0])
            if o[1] == "shape" and name == "is_matrix" and not args:
                return ("%s.isMatrix" % o[0], "bool")
            if o[1] == "shape" and name == "depth" and not args:
                return ("%s.depth" % o[0], "u32")
            raise Unsupported("method " + name)
        if fn[0] != "id":
            raise Unsupported("call")
        f = fn[1]
        xs = [self.e(x) for x in args]
        if f == "std::sqrt" and len(xs) == 1:
            if xs[0][1] == "f64": return ("(S.sqrt %s)" % xs[0][0], "f64")
            if xs[0][1] == "f32": return ("(S.narrow (S.sqrt %s))" % xs[0][0], "f32")
            if xs[0][1] in ("int", "u32"): return ("(S.sqrt %s)" % self.to_f(xs[0]), "f64")
        if f == "std::nextafter" and len(xs) == 2 and xs[0][1] == "f32" and xs[1][1] == "f32":
            return ("(S.nextafter %s %s)" % (xs[0][0], xs[1][0]), "f32")
        if f == "dist" and len(xs) == 1 and xs[0][1] == "rng" and "dist" in self.env:
            return ("draw", "f32")
        if f == "random::bernoulli<Var>" and len(xs) == 3:
            s, p, d = xs
            if s[1].startswith("varshape:") and d[1] == "device:" + s[1][9:] and p[1] == "f32":
                tmp = "w%d" % len(self.effects)
                self.effects.append((tmp, "V.bernoulli %s %s" % (s[1][9:], p[0])))
                return (tmp, "var")
        raise Unsupported("call of " + f)

    def bin(self, op, x, y):
        tx, ty = x[1], y[1]
        sc = ("f32", "f64", "int", "u32")
        if op in ("||", "&&"):
            if tx != "bool" or ty != "bool": raise Unsupported(op)
            return ("(%s %s %s)" % (x[0], op, y[0]), "bool")
        if op in ("<", ">", "<=", ">=", "==", "!="):
            if tx in ("u32", "int") and ty in ("u32", "int"):
                lop = {"<": "<", ">": ">", "<=": "≤", ">=": "≥"}.get(op)
                if lop: return ("(decide (%s %s %s))" % (x[0], lop, y[0]), "bool")
                return ("(%s %s %s)" % (x[0], op, y[0]), "bool")
            if tx in sc and ty in sc:
                a, b = self.to_f(x), self.to_f(y)
                return ({"<": "(S.lt %s %s)" % (a, b), ">": "(S.lt %s %s)" % (b, a),
                         "<=": "(S.le %s %s)" % (a, b), ">=": "(S.le %s %s)" % (b, a),
                         "==": "(S.eq %s %s)" % (a, b), "!=": "(!(S.eq %s %s))" % (a, b)}[op], "bool")
            raise Unsupported("comparison of %s and %s" % (tx, ty))
        name = {"+": "add", "-": "sub", "*": "mul", "/": "div"}[op]
        if tx == "var" or ty == "var":
            if op != "*": raise Unsupported("Var " + op)
            if tx == "var" and ty == "var":
                return ("(V.mul %s %s)" % (x[0], y[0]), "var")
            k, v = (x, y) if ty == "var" else (y, x)
            if k[1] not in sc: raise Unsupported("Var * " + k[1])
            kt = self.to_f(k)
            if k[1] != "f32":
                kt = "(S.narrow %s)" % kt          # operator*(float, Var): the constant is converted to float
            return ("(V.scale %s %s)" % (kt, v[0]), "var")
        if tx in ("u32", "int") and ty in ("u32", "int"):
            if tx == "int" and ty == "int": raise Unsupported("integer constant arithmetic")
            if op == "/": raise Unsupported("integer division")
            return ("(%s32 %s %s)" % (name, x[0], y[0]), "u32")      # std::uint32_t arithmetic wraps
        if tx in sc and ty in sc:
            if "f64" in (tx, ty):
                return ("(S.%s %s %s)" % (name, self.to_f(x), self.to_f(y)), "f64")
            if "u32" in (tx, ty): raise Unsupported("float with uint32_t")
            return ("(S.narrow (S.%s %s %s))" % (name, self.to_f(x), self.to_f(y)), "f32")   # float arithmetic
        raise Unsupported("%s on %s and %s" % (op, tx, ty))

    def as_type(self, x, ty):
        """Initialise a variable of declared type `ty` from x."""
        if ty == x[1]:
            return x[0]
        if ty == "f32" and x[1] == "f64":
            return "(S.narrow %s)" % x[0]
        if ty in ("f32", "f64") and x[1] in ("int",):
            return self.to_f(x)
        if ty == "f64" and x[1] == "f32":
            return x[0]
        if ty == "u32" and x[1] == "int":
            return x[0]
        raise Unsupported("initialise %s from %s" % (ty, x[1]))


def parse_body(body):
    p = P(tokenize(body))
    ss = []
    while not p.eof():
        ss.append(p.stmt())
    return ss


def is_throw_if(s):
    return s[0] == "if" and len(s[2]) == 1 and s[2][0] == ("throw",)


EXPECTED = {"bernoulli": ["p"], "uniform": ["lower", "upper"], "normal": ["mean", "sd"], "log_normal": ["mean", "sd"]}
INIT_FIELDS = {"Constant": 1, "Uniform": 2, "Normal": 2, "Identity": 0, "XavierUniform": 1, "XavierNormal": 1,
               "XavierUniformConv2D": 1, "XavierNormalConv2D": 1}


def device_unsupported(fname, why, text):
    """Device::<fname> outside the subset: opaque definitions with the expected signature."""
    fl = EXPECTED[fname[len("random_"):]]
    args = " ".join("(%s : α)" % n for n in fl)
    ty = " → ".join(["α"] * len(fl) + ["Shape", "ν"])
    return ["-- %s" % why,
            "def guard_%s {α : Type} (S : Sc α) %s : Bool :=\n  unsupportedBool %s" % (fname, args, lstr(text)),
            "def Device_%s {α ν : Type} (S : Sc α) (%s_impl : %s) (shape : Shape) %s : R ν :=\n  unsupportedVal %s"
            % (fname, fname, ty, args, lstr(text))]


# device.cc ---------------------------------------------------------------
def gen_device(src, fname):
    r = find_function(src, r"\bTensor\s+Device\s*::\s*%s" % fname)
    if not r:
        return device_unsupported(fname, "not found", "Device::%s not found" % fname), None
    params, body, whole = r
    out = []
    try:
        ps = parse_params(params)
        if not ps or ps[0] != ("shape", "shape") or any(t != "f32" for t, _ in ps[1:]):
            raise Unsupported("parameters")
        if [n for _, n in ps[1:]] != EXPECTED[fname[len("random_"):]]:
            raise Unsupported("parameter names")
        ss = parse_body(body)
    except Unsupported as e:
        return device_unsupported(fname, str(e), norm(whole)), None
    fl = [n for _, n in ps[1:]]
    env = {n: (ident(n), "f32") for n in fl}
    guards = [s for s in ss if is_throw_if(s)]
    rest = [s for s in ss if not is_throw_if(s)]
    conds = []
    for g in guards:
        try:
            c = Em(env).e(g[1])
            if c[1] != "bool": raise Unsupported("guard type")
            conds.append(c[0])
        except Unsupported as e:
            conds.append("(unsupportedBool %s)" % lstr(norm_expr(g[1])))
    cond = " || ".join(conds) if conds else "false"
    args = " ".join("(%s : α)" % ident(n) for n in fl)
    out.append("/-- `Device::%s` throws exactly when this is true. -/" % fname)
    out.append("def guard_%s {α : Type} (S : Sc α) %s : Bool :=\n  %s" % (fname, args, cond))
    # the rest: Tensor y = new_raw_tensor(shape); <f>_impl(<params>, y); return y;
    impl = fname + "_impl"
    ok = (len(rest) == 3 and rest[0] == ("let", "tensor", "y", ("call", ("id", "new_raw_tensor"), [("id", "shape")]))
          and rest[1][0] == "expr" and rest[1][1][0] == "call" and rest[1][1][1] == ("id", impl)
          and rest[1][1][2][-1:] == [("id", "y")] and all(a[0] == "id" and a[1] in fl for a in rest[1][1][2][:-1])
          and rest[2] == ("return", ("id", "y"))
          and ss[:len(guards)] == guards)
    ty = " → ".join(["α"] * len(fl) + ["Shape", "ν"])
    out.append("/-- `Device::%s`: the checks, then `%s` fills a new tensor of the requested shape. -/" % (fname, impl))
    if ok:
        call = " ".join(ident(a[1]) for a in rest[1][1][2][:-1])
        out.append("def Device_%s {α ν : Type} (S : Sc α) (%s : %s) (shape : Shape) %s : R ν :=\n"
                   "  if guard_%s S %s then throwError else pure (%s %s shape)"
                   % (fname, impl, ty, args, fname, " ".join(map(ident, fl)), impl, call))
    else:
        out.append("def Device_%s {α ν : Type} (S : Sc α) (%s : %s) (shape : Shape) %s : R ν :=\n"
                   "  unsupportedVal %s" % (fname, impl, ty, args, lstr(norm(whole))))
    return out, fl


def norm_expr(a):
    k = a[0]
    if k in ("num", "id"): return a[1]
    if k == "un": return a[1] + norm_expr(a[2])
    if k == "bin": return "(%s %s %s)" % (norm_expr(a[2]), a[1], norm_expr(a[3]))
    if k == "tern": return "(%s ? %s : %s)" % tuple(norm_expr(x) for x in a[1:])
    if k == "call": return "%s(%s)" % (norm_expr(a[1]), ", ".join(norm_expr(x) for x in a[2]))
    if k == "member": return "%s.%s" % (norm_expr(a[1]), a[2])
    if k == "index": return "%s[%s]" % (norm_expr(a[1]), norm_expr(a[2]))
    return "?"


# random.h ------------------------------------------------------------------
def gen_fill(src, kind):
    fname = "fill_" + kind
    r = find_function(src, r"\bvoid\s+%s" % fname)
    bad = lambda why, whole: ["-- %s" % why,
                              "def %s_dist : String × List String := (%s, [])" % (fname, lstr("unsupported")),
                              "def %s_elem {α : Type} (S : Sc α) %s (draw : α) : α :=\n  unsupportedScalar S %s"
                              % (fname, " ".join("(%s : α)" % n for n in EXPECTED[kind]), lstr(whole))]
    if not r:
        return bad("not found", fname + " not found")
    params, body, whole = r
    try:
        ps = parse_params(params)
        if len(ps) < 3 or ps[-2] != ("size", "size") or ps[-1] != ("f32", "data") or any(t != "f32" for t, _ in ps[:-2]):
            raise Unsupported("parameters")
        fl = [n for _, n in ps[:-2]]
        if fl != EXPECTED[kind]:
            raise Unsupported("parameter names")
        ss = parse_body(body)
        if not ss or ss[0][0] != "dist" or ss[0][2] != "dist" or ss[-1][0] != "for" or ss[-1][2] != "size":
            raise Unsupported("body shape")
        dist_ty, dargs = ss[0][1], ss[0][3]
        if not all(a[0] == "id" and a[1] in fl for a in dargs):
            raise Unsupported("distribution arguments")
        em = Em({n: (ident(n), "f32") for n in fl})
        em.env["dist"] = ("dist", "dist"); em.env["rng_"] = ("rng_", "rng")
        lets = []
        draws = 0
        def do_let(s):
            nonlocal draws
            if s[0] != "let" or s[1] not in ("f32",): raise Unsupported("statement")
            x = em.e(s[3])
            if x[0] == "draw": draws += 1
            lets.append("let %s := %s" % (ident(s[2]), em.as_type(x, s[1])))
            em.env[s[2]] = (ident(s[2]), s[1])
        for s in ss[1:-1]:
            do_let(s)
        loop = ss[-1]
        for s in loop[3][:-1]:
            do_let(s)
        st = loop[3][-1]
        if st[0] != "assign" or st[1] != ("index", ("id", "data"), ("id", loop[1])):
            raise Unsupported("store")
        x = em.e(st[2])
        if x[0] == "draw": draws += 1
        if x[1] != "f32" or draws != 1:
            raise Unsupported("stored value")
    except Unsupported as e:
        return bad(str(e), norm(whole))
    args = " ".join("(%s : α)" % ident(n) for n in fl)
    out = ["/-- `DefaultRandomizer::%s`: the libstdc++ distribution object and the parameters it is built from. -/" % fname,
           "def %s_dist : String × List String := (%s, [%s])" % (fname, lstr(dist_ty), ", ".join(lstr(a[1]) for a in dargs)),
           "/-- `DefaultRandomizer::%s`: what is stored for one draw `dist(rng_)`. -/" % fname,
           "def %s_elem {α : Type} (S : Sc α) %s (draw : α) : α :=\n  %s" % (fname, args, "\n  ".join(lets + [x[0]]))]
    return out


# devices/*/ops/random_*.cc ---------------------------------------------------
def gen_backend(root):
    rows = []
    for be, cls in (("naive", "Naive"), ("eigen", "Eigen")):
        for kind in ("bernoulli", "uniform", "normal", "log_normal"):
            path = os.path.join(root, "primitiv/devices/%s/ops/random_%s.cc" % (be, kind))
            row = (be, kind, "unsupported", [], [])
            try:
                src = strip_comments(open(path).read())
                r = find_function(src, r"\bvoid\s+%s\s*::\s*random_%s_impl" % (cls, kind))
                if not r: raise Unsupported("not found")
                params, body, whole = r
                pl = [p.strip() for p in params.split(",")]
                if pl[-1].replace(" ", "") != "Tensor&y": raise Unsupported("params")
                ps = parse_params(",".join(pl[:-1]))
                ss = parse_body(body)
                if len(ss) != 1 or ss[0][0] != "expr" or ss[0][1][0] != "call": raise Unsupported("body")
                c = ss[0][1]
                if c[1][0] != "member" or c[1][1] != ("id", "randomizer_"): raise Unsupported("callee")
                tail = [norm_expr(a) for a in c[2][-2:]]
                if tail != ["y.shape().size()", "MDATA(y)"]: raise Unsupported("size/data arguments")
                row = (be, kind, c[1][2], [n for _, n in ps], [norm_expr(a) for a in c[2][:-2]])
            except (Unsupported, OSError) as e:
                row = (be, kind, "unsupported: %s" % e, [], [])
            rows.append(row)
    out = ["/-- `<Backend>::random_<kind>_impl(params…, y)` calls `randomizer_.<fill>(args…, y.shape().size(), MDATA(y))`:",
           "(backend, kind, fill function, params, args). -/",
           "def backend_calls : List (String × String × String × List String × List String) := ["]
    out.append(",\n".join("  (%s, %s, %s, [%s], [%s])" % (lstr(b), lstr(k), lstr(f), ", ".join(map(lstr, p)), ", ".join(map(lstr, a)))
                          for b, k, f, p, a in rows))
    out.append("]")
    return out


# initializer_impl.{h,cc} -------------------------------------------------------
def class_fields(hsrc, cls):
    m = re.search(r"\bclass\s+%s\s*:\s*public\s+Initializer\s*\{" % cls, hsrc)
    if not m:
        return None
    i = m.end(); d = 1
    while d and i < len(hsrc):
        d += {"{": 1, "}": -1}.get(hsrc[i], 0); i += 1
    body = hsrc[m.end():i - 1]
    return re.findall(r"\bfloat\s+(\w+_)\s*;", body)


def gen_init(hsrc, csrc, cls):
    name = "init_" + cls
    fields = class_fields(hsrc, cls)
    r = find_function(csrc, r"\bvoid\s+%s\s*::\s*apply" % cls)
    if fields is None or not r:
        args = "".join(" (f%d : α)" % i for i in range(INIT_FIELDS[cls]))
        return ["def %s {α : Type} (S : Sc α)%s (x_shape : Shape) : R (InitAction α) := pure (.unsupported %s)" % (name, args, lstr(cls + " not found"))]
    params, body, whole = r
    args = "".join(" (%s : α)" % ident(f) for f in fields)
    head = "def %s {α : Type} (S : Sc α)%s (x_shape : Shape) : R (InitAction α) :=" % (name, args)
    try:
        if params.replace(" ", "") != "Tensor&x": raise Unsupported("parameters")
        ss = parse_body(body)
        em = Em({f: (ident(f), "f32") for f in fields})
        em.env["x"] = ("x", "tensor")
        lines = []
        action = None
        for s in ss:
            if action is not None: raise Unsupported("statement after the final call")
            if is_throw_if(s):
                c = em.e(s[1])
                if c[1] != "bool": raise Unsupported("guard")
                lines.append("if %s then throwError else" % c[0])
            elif s[0] == "let":
                x = em.e(s[3])
                lines.append("let %s := %s" % (ident(s[2]), em.as_type(x, s[1])))
                em.env[s[2]] = (ident(s[2]), s[1])
            elif s[0] == "expr" and s[1][0] == "call" and s[1][1] == ("member", ("id", "x"), "reset") and len(s[1][2]) == 1:
                k = em.e(s[1][2][0])
                action = ".reset %s" % em.as_type(k, "f32")
            elif s[0] == "assign" and s[1] == ("id", "x") and s[2][0] == "call" and s[2][1][0] == "member" \
                    and s[2][1][1] == ("call", ("member", ("id", "x"), "device"), []):
                m, a = s[2][1][2], [em.e(z) for z in s[2][2]]
                if m in ("random_uniform", "random_normal") and len(a) == 3 and a[0][1] == "shape":
                    action = ".%s %s %s %s" % (m[7:], a[0][0], em.as_type(a[1], "f32"), em.as_type(a[2], "f32"))
                elif m == "identity" and len(a) == 1 and a[0][1] == "u32":
                    action = ".identity %s" % a[0][0]
                else:
                    raise Unsupported("device call " + m)
            else:
                raise Unsupported("statement")
        if action is None: raise Unsupported("no final call")
        lines.append("pure (%s)" % action)
    except Unsupported as e:
        return ["-- %s" % e, head, "  pure (.unsupported %s)" % lstr(norm(whole))]
    return ["/-- `initializers::%s::apply`. -/" % cls, head] + ["  " + l for l in lines]


# contrib/functions.h -------------------------------------------------------------
def gen_dropout(src):
    head = "def dropout {α ν : Type} (S : Sc α) (V : VarOps α ν) (x : ν) (rate : α) (enabled : Bool) : R ν :="
    r = find_function(src, r"\bdropout")
    if not r:
        return [head, "  unsupportedVal %s" % lstr("dropout not found")]
    params, body, whole = r
    try:
        ps = parse_params(params)
        if ps != [("var", "x"), ("f32", "rate"), ("bool", "enabled")]: raise Unsupported("parameters")
        ss = parse_body(body)
        env = {"x": ("x", "var"), "rate": ("rate", "f32"), "enabled": ("enabled", "bool")}
        lines = []
        done = False
        for s in ss:
            if done: raise Unsupported("statement after return")
            em = Em(env)
            if s[0] == "if" and len(s[2]) == 1 and s[2][0][0] == "return":
                c = em.e(s[1]); v = em.e(s[2][0][1])
                if c[1] != "bool" or v[1] != "var" or em.effects: raise Unsupported("if-return")
                lines.append("if %s then pure %s else" % (c[0], v[0]))
            elif s[0] == "let":
                x = em.e(s[3])
                if em.effects: raise Unsupported("effect in initialiser")
                lines.append("let %s := %s" % (ident(s[2]), em.as_type(x, s[1])))
                env[s[2]] = (ident(s[2]), s[1])
            elif s[0] == "return":
                v = em.e(s[1])
                if v[1] != "var": raise Unsupported("return type")
                if em.effects:
                    lines.append("do")
                    for tmp, m in em.effects:
                        lines.append("  let %s ← %s" % (tmp, m))
                    lines.append("  pure %s" % v[0])
                else:
                    lines.append("pure %s" % v[0])
                done = True
            else:
                raise Unsupported("statement")
        if not done: raise Unsupported("no return")
    except Unsupported as e:
        return ["-- %s" % e, head, "  unsupportedVal %s" % lstr(norm(whole))]
    return ["/-- `functions::dropout` (contrib/functions.h). -/", head] + ["  " + l for l in lines]


INIT_CLASSES = ["Constant", "Uniform", "Normal", "Identity", "XavierUniform", "XavierNormal",
                "XavierUniformConv2D", "XavierNormalConv2D"]


def render(root=None):
    root = root or repo()
    rd = lambda p: strip_comments(open(os.path.join(root, p)).read())
    out = ["-- GENERATED by /verif/translate/rng.py from the primitiv working tree. Do not edit.",
           "import PrimitivModel.Model.RngBase",
           "set_option linter.unusedVariables false",
           "namespace Primitiv.Gen.Rng",
           "open Primitiv Primitiv.Rng",
           ""]
    dev = rd("primitiv/core/device.cc")
    for f in ("random_bernoulli", "random_uniform", "random_normal", "random_log_normal"):
        o, _ = gen_device(dev, f)
        out += o + [""]
    rh = rd("primitiv/core/random.h")
    for k in ("bernoulli", "uniform", "normal", "log_normal"):
        out += gen_fill(rh, k) + [""]
    out += gen_backend(root) + [""]
    ih, ic = rd("primitiv/core/initializer_impl.h"), rd("primitiv/core/initializer_impl.cc")
    for c in INIT_CLASSES:
        out += gen_init(ih, ic, c) + [""]
    out += gen_dropout(rd("primitiv/contrib/functions.h")) + [""]
    out.append("end Primitiv.Gen.Rng")
    return "\n".join(out) + "\n"


class gen_lock:
    """Serialises writers of Gen/Rng.lean.  Every check process regenerates the file from *its* VERIF_REPO; a check of
    C17 holds this lock from the regeneration to the end of its Lean build, so that a concurrent run against another
    tree cannot swap the text under the build."""

    def __init__(self, blocking=True):
        self.blocking = blocking
        self.held = False

    def __enter__(self):
        import fcntl
        d = os.path.join(VERIF, ".cache")
        os.makedirs(d, exist_ok=True)
        self.f = open(os.path.join(d, "gen-rng.lock"), "w")
        try:
            fcntl.flock(self.f, fcntl.LOCK_EX | (0 if self.blocking else fcntl.LOCK_NB))
            self.held = True
        except OSError:
            self.held = False
        return self

    def __exit__(self, *a):
        import fcntl
        fcntl.flock(self.f, fcntl.LOCK_UN)
        self.f.close()


def generate(root=None, lock=True):
    """Write Gen/Rng.lean (only when the text changes, so that lake does not rebuild needlessly).
    Returns (path, changed_relative_to_golden)."""
    if lock:
        # called by ./setup and at the start of every check (translate/regen.py): when a check of C17 is building with
        # its own text right now, leave the file alone (that check regenerates it itself, under the lock)
        with gen_lock(blocking=False) as g:
            if not g.held:
                return OUT, False
            return generate(root, lock=False)
    txt = render(root)
    os.makedirs(os.path.dirname(OUT), exist_ok=True)
    old = open(OUT).read() if os.path.exists(OUT) else None
    if old != txt:
        tmp = OUT + ".tmp%d" % os.getpid()
        with open(tmp, "w") as f:
            f.write(txt)
        os.replace(tmp, OUT)
    golden = open(GOLDEN).read() if os.path.exists(GOLDEN) else None
    return OUT, (golden is not None and golden != txt)


SELFTEST = [
    ("p < 0 || p > 1", {"p": ("p", "f32")}, "((S.lt p (S.ofNat 0)) || (S.lt (S.ofNat 1) p))"),
    ("!(p >= 0 && p <= 1)", {"p": ("p", "f32")}, "(!((S.le (S.ofNat 0) p) && (S.le p (S.ofNat 1))))"),
    ("scale_ * std::sqrt(6. / (s[0] + s[1]))", {"scale_": ("scale_", "f32"), "s": ("s", "shape")},
     "(S.mul scale_ (S.sqrt (S.div (S.ofNat 6) (S.ofNat (add32 (s.get 0) (s.get 1))))))"),
    ("x < lower_eps ? upper : x", {"x": ("x", "f32"), "lower_eps": ("le", "f32"), "upper": ("upper", "f32")},
     "(if (S.lt x le) then upper else x)"),
    ("std::pow(p, 2)", {"p": ("p", "f32")}, None),
    ("p < .5", {"p": ("p", "f32")}, None),
]


def selftest():
    bad = []
    for src, env, want in SELFTEST:
        try:
            got = Em(env).e(P(tokenize(src)).expr())[0]
        except Unsupported:
            got = None
        if got != want:
            bad.append((src, got, want))
    # white space / comment insensitivity
    a = Em({"p": ("p", "f32")}).e(P(tokenize(strip_comments("p<0||p>1"))).expr())
    b = Em({"p": ("p", "f32")}).e(P(tokenize(strip_comments("p /* c */ <\n 0 || // x\n p > 1"))).expr())
    if a != b:
        bad.append(("whitespace", a, b))
    return bad


if __name__ == "__main__":
    if len(sys.argv) > 1 and sys.argv[1] == "--selftest":
        b = selftest()
        print("selftest:", "ok" if not b else b)
        sys.exit(1 if b else 0)
    if len(sys.argv) > 1 and sys.argv[1] == "--golden":
        os.makedirs(os.path.dirname(GOLDEN), exist_ok=True)
        open(GOLDEN, "w").write(render())
        print("wrote", GOLDEN)
        sys.exit(0)
    p, ch = generate()
    print("wrote", p, "(differs from golden)" if ch else "")
