#!/usr/bin/env python3
"""Translator step of C19: reads primitiv/core/spinlock.h of the working tree
(env VERIF_REPO, default /repo) and emits lean/PrimitivModel/Gen/SpinlockDecls.lean:

  * for each of the two classes, which data members are declared with an atomic
    type (std::atomic_flag, std::atomic<...>, std::atomic_xxx) and which are plain;
  * the shared-memory accesses of try_lock() and unlock() in textual order,
    with the access kind (read / write / rmw) and the memory order written in
    the source (plain for an ordinary expression, seqCst for an atomic
    operation without an explicit order).

Pure Python 3 standard library.  `python3 translate/spinlock_decls.py [--check-golden] [--stdout]`.
"""
import os, re, sys

VERIF = os.path.dirname(os.path.dirname(os.path.abspath(__file__)))
OUT = os.path.join(VERIF, "lean", "PrimitivModel", "Gen", "SpinlockDecls.lean")
GOLDEN = os.path.join(VERIF, "translate", "golden", "SpinlockDecls.lean")

FIELDS = {"ready_": "ready", "locked_thread_id_": "owner", "lock_count_": "count"}
ORDERS = {"relaxed": "relaxed", "consume": "consume", "acquire": "acquire", "release": "release",
          "acq_rel": "acqRel", "seq_cst": "seqCst"}


class TranslateError(Exception):
    pass


def repo():
    return os.environ.get("VERIF_REPO", "/repo")


def strip(src):
    """Remove comments, preprocessor lines and the scheduling-point macro."""
    src = re.sub(r"/\*.*?\*/", " ", src, flags=re.S)
    src = re.sub(r"//[^\n]*", " ", src)
    # a guarded block that is not compiled in a normal build
    out, depth_verif, stack = [], 0, []
    for line in src.split("\n"):
        s = line.strip()
        if s.startswith("#"):
            m = re.match(r"#\s*(ifdef|ifndef|if|else|elif|endif)\b\s*(.*)", s)
            if m:
                d, arg = m.group(1), m.group(2).strip()
                if d in ("ifdef", "ifndef", "if"):
                    stack.append("verif" if (d == "ifdef" and arg == "PRIMITIV_VERIF") else "other")
                elif d == "else" and stack and stack[-1] == "verif":
                    stack[-1] = "verif-else"
                elif d == "endif" and stack:
                    stack.pop()
            continue
        if "verif" in stack:
            continue
        out.append(line)
    src = "\n".join(out)
    src = re.sub(r"\bPRIMITIV_VERIF_YIELD\s*\([^)]*\)\s*;?", " ", src)
    return src


def match_brace(src, i):
    """src[i] == '{' → index of the matching '}'."""
    depth = 0
    for j in range(i, len(src)):
        if src[j] == "{":
            depth += 1
        elif src[j] == "}":
            depth -= 1
            if depth == 0:
                return j
    raise TranslateError("unbalanced braces")


def class_body(src, name):
    m = re.search(r"\bclass\s+%s\b[^;{]*\{" % re.escape(name), src)
    if not m:
        raise TranslateError("class %s not found" % name)
    i = m.end() - 1
    return src[i + 1:match_brace(src, i)]


def top_level_chunks(body):
    """Split a class body into top-level statements / function definitions."""
    chunks, cur, depth, i = [], "", 0, 0
    while i < len(body):
        c = body[i]
        if c == "{":
            j = match_brace(body, i)
            cur += body[i:j + 1]
            i = j + 1
            # a function body ends the chunk; an initializer `{...}` is followed by ';'
            k = i
            while k < len(body) and body[k] in " \t\n":
                k += 1
            if k < len(body) and body[k] == ";":
                continue
            chunks.append(cur.strip()); cur = ""
            continue
        if c == ";":
            chunks.append(cur.strip()); cur = ""
            i += 1
            continue
        cur += c
        i += 1
    if cur.strip():
        chunks.append(cur.strip())
    return [re.sub(r"^(public|private|protected)\s*:\s*", "", c).strip() for c in chunks if c.strip()]


def is_atomic_type(ty):
    ty = ty.replace(" ", "")
    return bool(re.match(r"^(const)?(volatile)?(std::)?atomic(_\w+|<.*>)$", ty))


def members(body):
    """{member name: declared type} of the data members."""
    res = {}
    for c in top_level_chunks(body):
        if "(" in c.split("=")[0].split("{")[0]:
            continue  # a function
        m = re.match(r"^(?:static\s+|mutable\s+)*(?P<ty>[\w:<>,\s\*&]+?)\s+(?P<name>\w+)\s*(=.*|\{.*\})?$", c, flags=re.S)
        if m:
            res[m.group("name")] = " ".join(m.group("ty").split())
    return res


def method_body(body, name):
    m = re.search(r"\b%s\s*\(\s*\)\s*(const\s*)?\{" % re.escape(name), body)
    if not m:
        raise TranslateError("method %s() not found" % name)
    i = m.end() - 1
    return body[i + 1:match_brace(body, i)]


def order_of(args, atomic):
    m = re.search(r"std::memory_order_(\w+)\s*$", args.strip())
    if m:
        if m.group(1) not in ORDERS:
            raise TranslateError("unknown memory order " + m.group(1))
        return ORDERS[m.group(1)]
    m = re.search(r"std::memory_order::(\w+)\s*$", args.strip())
    if m and m.group(1) in ORDERS:
        return ORDERS[m.group(1)]
    return "seqCst" if atomic else "plain"


def accesses(code, atomic):
    """Shared-memory accesses of a method body in textual order:
    [(field, kind, order)]."""
    res = []
    pos = 0
    tok = re.compile(r"(\+\+|--)?\s*\b(ready_|locked_thread_id_|lock_count_)\b")
    while True:
        m = tok.search(code, pos)
        if not m:
            break
        pre, name = m.group(1), m.group(2)
        fld = FIELDS[name]
        rest = code[m.end():]
        at = atomic.get(name, False)
        mm = re.match(r"\s*\.\s*(\w+)\s*\(", rest)
        if mm:
            op = mm.group(1)
            j = m.end() + mm.end() - 1
            # balanced parentheses
            depth, k = 0, j
            while k < len(code):
                if code[k] == "(":
                    depth += 1
                elif code[k] == ")":
                    depth -= 1
                    if depth == 0:
                        break
                k += 1
            args = code[j + 1:k]
            kinds = {"test_and_set": "rmw", "clear": "write", "load": "read", "store": "write",
                     "exchange": "rmw", "fetch_add": "rmw", "fetch_sub": "rmw",
                     "compare_exchange_strong": "rmw", "compare_exchange_weak": "rmw"}
            if op not in kinds:
                raise TranslateError("unknown operation %s.%s()" % (name, op))
            res.append((fld, kinds[op], order_of(args, True)))
            pos = k + 1
            continue
        order = "seqCst" if at else "plain"
        if pre:
            res.append((fld, "rmw", order))
        elif re.match(r"\s*(\+\+|--|[-+*/|&^]=)", rest):
            res.append((fld, "rmw", order))
        elif re.match(r"\s*=(?!=)", rest):
            res.append((fld, "write", order))
        else:
            res.append((fld, "read", order))
        pos = m.end()
    return res


def parse(path=None):
    path = path or os.path.join(repo(), "primitiv", "core", "spinlock.h")
    src = strip(open(path).read())
    out = {}
    for cls in ("Spinlock", "RecursiveSpinlock"):
        body = class_body(src, cls)
        mem = members(body)
        if "ready_" not in mem:
            raise TranslateError("class %s has no member ready_" % cls)
        atomic = {n: is_atomic_type(t) for n, t in mem.items()}
        for n in mem:
            if n not in FIELDS:
                raise TranslateError("class %s has a data member the model does not know: %s %s" % (cls, mem[n], n))
        # lock() must be the loop around try_lock() that the model assumes
        lock = "".join(method_body(body, "lock").split())
        if lock != "while(!try_lock());":
            raise TranslateError("%s::lock() is not `while (!try_lock());`: %s" % (cls, lock))
        out[cls] = {
            "members": mem, "atomic": atomic,
            "try_lock": accesses(method_body(body, "try_lock"), atomic),
            "unlock": accesses(method_body(body, "unlock"), atomic),
        }
    return out


def lean_text(d):
    def decls(name, c):
        at = {FIELDS[n]: a for n, a in c["atomic"].items()}
        def b(f):
            return "true" if at.get(f, False) else "false"
        def acc(l):
            return "[" + ", ".join("⟨.%s, .%s, .%s⟩" % a for a in l) + "]"
        types = ", ".join("%s : %s" % (n, t) for n, t in sorted(c["members"].items()))
        return ("/-- %s -/\n"
                "def %s : Decls where\n"
                "  atomic := fun f => match f with\n"
                "    | .ready => %s\n    | .owner => %s\n    | .count => %s\n"
                "  tryLock := %s\n"
                "  unlock := %s\n" % (types, name, b("ready"), b("owner"), b("count"), acc(c["try_lock"]), acc(c["unlock"])))
    return ("-- GENERATED by /verif/translate/spinlock_decls.py from primitiv/core/spinlock.h — do not edit.\n"
            "import PrimitivModel.Model.Spinlock\n"
            "namespace Primitiv.Gen.SpinlockDecls\n"
            "open Primitiv.Lock\n\n"
            + decls("spin", d["Spinlock"]) + "\n" + decls("rspin", d["RecursiveSpinlock"]) +
            "\nend Primitiv.Gen.SpinlockDecls\n")


def regenerate(out=OUT):
    """Write Gen/SpinlockDecls.lean (only when the text changes, so that lake
    does not rebuild needlessly).  Returns the parsed table."""
    d = parse()
    txt = lean_text(d)
    os.makedirs(os.path.dirname(out), exist_ok=True)
    old = open(out).read() if os.path.exists(out) else None
    if old != txt:
        tmp = out + ".tmp%d" % os.getpid()
        with open(tmp, "w") as f:
            f.write(txt)
        os.replace(tmp, out)
    return d


def differs_from_golden(d):
    if not os.path.exists(GOLDEN):
        return None
    return open(GOLDEN).read() != lean_text(d)


if __name__ == "__main__":
    if "--stdout" in sys.argv:
        sys.stdout.write(lean_text(parse()))
    elif "--check-golden" in sys.argv:
        d = parse()
        r = differs_from_golden(d)
        print("golden: " + ("missing" if r is None else "differs" if r else "same"))
        sys.exit(1 if r else 0)
    else:
        regenerate()
        print("wrote", OUT)
