#!/usr/bin/env python3
"""Translator step of C19: reads primitiv/core/spinlock.h of the working tree
(env VERIF_REPO, default /repo), mixins/identifiable.h and mixins/default_settable.h and emits
lean/PrimitivModel/Gen/SpinlockDecls.lean:

  * every data member of Spinlock, RecursiveSpinlock, Identifiable, DefaultSettable with its declared
    type, storage class (static / thread_local), atomicity and integer width; for Identifiable whether
    the constructor, the destructor and get_object() take the lock_guard on mutex_ before touching the registry;

  * for each of the two classes, which data members are declared with an atomic
    type (std::atomic_flag, std::atomic<...>, std::atomic_xxx) and which are plain;
  * the shared-memory accesses of try_lock() and unlock() in textual order,
    with the access kind (read / write / rmw) and the memory order written in
    the source (plain for an ordinary expression, seqCst for an atomic
    operation without an explicit order).

Pure Python 3 standard library.  `python3 translate/spinlock_decls.py [--check-golden] [--stdout]`.
"""
import os, re, sys

VERIF = os.path.dirname(os.path.dirname(os.path.abspath(__file__)))
OUT = os.path.join(VERIF, "lean", "PrimitivModel", "Gen", "SpinlockDecls.lean")
GOLDEN = os.path.join(VERIF, "translate", "golden", "SpinlockDecls.lean")

FIELDS = {"ready_": "ready", "locked_thread_id_": "owner", "lock_count_": "count"}
ORDERS = {"relaxed": "relaxed", "consume": "consume", "acquire": "acquire", "release": "release",
          "acq_rel": "acqRel", "seq_cst": "seqCst"}


class TranslateError(Exception):
    pass


def repo():
    return os.environ.get("VERIF_REPO", "/repo")


def strip(src):
    """Remove comments, preprocessor lines and the scheduling-point macro."""
    src = re.sub(r"/\*.*?\*/", " ", src, flags=re.S)
    src = re.sub(r"//[^\n]*", " ", src)
    # a guarded block that is not compiled in a normal build
    out, depth_verif, stack = [], 0, []
    for line in src.split("\n"):
        s = line.strip()
        if s.startswith("#"):
            m = re.match(r"#\s*(ifdef|ifndef|if|else|elif|endif)\b\s*(.*)", s)
            if m:
                d, arg = m.group(1), m.group(2).strip()
                if d in ("ifdef", "ifndef", "if"):
                    stack.append("verif" if (d == "ifdef" and arg == "PRIMITIV_VERIF") else "other")
                elif d == "else" and stack and stack[-1] == "verif":
                    stack[-1] = "verif-else"
                elif d == "endif" and stack:
                    stack.pop()
            continue
        if "verif" in stack:
            continue
        out.append(line)
    src = "\n".join(out)
    src = re.sub(r"\bPRIMITIV_VERIF_YIELD\s*\([^)]*\)\s*;?", " ", src)
    return src


def match_brace(src, i):
    """src[i] == '{' → index of the matching '}'."""
    depth = 0
    for j in range(i, len(src)):
        if src[j] == "{":
            depth += 1
        elif src[j] == "}":
            depth -= 1
            if depth == 0:
                return j
    raise TranslateError("unbalanced braces")


def class_body(src, name):
    m = re.search(r"\bclass\s+%s\b[^;{]*\{" % re.escape(name), src)
    if not m:
        raise TranslateError("class %s not found" % name)
    i = m.end() - 1
    return src[i + 1:match_brace(src, i)]


def top_level_chunks(body):
    """Split a class body into top-level statements / function definitions."""
    chunks, cur, depth, i = [], "", 0, 0
    while i < len(body):
        c = body[i]
        if c == "{":
            j = match_brace(body, i)
            cur += body[i:j + 1]
            i = j + 1
            # a function body ends the chunk; an initializer `{...}` is followed by ';'
            k = i
            while k < len(body) and body[k] in " \t\n":
                k += 1
            if k < len(body) and body[k] == ";":
                continue
            chunks.append(cur.strip()); cur = ""
            continue
        if c == ";":
            chunks.append(cur.strip()); cur = ""
            i += 1
            continue
        cur += c
        i += 1
    if cur.strip():
        chunks.append(cur.strip())
    return [re.sub(r"^(public|private|protected)\s*:\s*", "", c).strip() for c in chunks if c.strip()]


def is_atomic_type(ty):
    ty = ty.replace(" ", "")
    return bool(re.match(r"^(const)?(volatile)?(std::)?atomic(_\w+|<.*>)$", ty))


STORAGE = ("static", "thread_local", "mutable", "constexpr", "inline")


def members(body):
    """{member name: declared type}; the storage-class specifiers of each
    member are collected in members.storage[name] (see member_table)."""
    return {n: t for n, (t, _) in member_table(body).items()}


def member_table(body):
    """{member name: (declared type, [storage class specifiers])} of the data members."""
    res = {}
    for c in top_level_chunks(body):
        head = c.split("=")[0].split("{")[0]
        if "(" in head or re.search(r"\boperator\b", c) or c.startswith(("using ", "typedef ", "friend ", "template", "class ", "struct ", "enum ")):
            continue  # a function or a nested type
        decl = re.split(r"=|\{", c, 1)[0].strip()
        m = re.match(r"^(?P<pre>.*?)(?P<name>\w+)$", decl, flags=re.S)
        if not m or not m.group("pre").strip():
            continue
        toks = m.group("pre").split()
        storage = [t for t in toks if t in STORAGE]
        ty = " ".join(t for t in toks if t not in STORAGE)
        res[m.group("name")] = (ty, storage)
    return res


INT_BITS = {"std::uint8_t": 8, "std::uint16_t": 16, "std::uint32_t": 32, "std::uint64_t": 64,
            "uint8_t": 8, "uint16_t": 16, "uint32_t": 32, "uint64_t": 64,
            "unsigned char": 8, "unsigned short": 16, "unsigned": 32, "unsigned int": 32,
            "unsigned long": 64, "unsigned long long": 64, "std::size_t": 64, "size_t": 64}


def int_bits(ty):
    """Width of a fixed-width unsigned integer type (LP64); 0 for anything else
    (signed types would make the overflow of the counter undefined: 0 too)."""
    ty = " ".join(t for t in ty.split() if t not in ("const", "volatile"))
    return INT_BITS.get(ty, 0)


def method_body(body, name, params=r"\s*"):
    m = re.search(r"(?<![\w~])%s\s*\(%s\)\s*(const\s*)?\{" % (name, params), body)
    if not m:
        raise TranslateError("method %s() not found" % name)
    i = m.end() - 1
    return body[i + 1:match_brace(body, i)]


def guarded(code, shared):
    """Does the body take `std::lock_guard<std::mutex> …(mutex_)` (or unique_lock)
    as a statement of the outermost block before it first mentions one of `shared`?"""
    g = re.search(r"\bstd::(lock_guard|unique_lock)\s*<\s*std::mutex\s*>\s+\w+\s*[\(\{]\s*mutex_\s*[\)\}]\s*;", code)
    first = min([m.start() for n in shared for m in re.finditer(r"\b%s\b" % n, code)] or [len(code)])
    if not g or g.start() > first:
        return False
    return code[:g.start()].count("{") == code[:g.start()].count("}")


def order_of(args, atomic):
    m = re.search(r"std::memory_order_(\w+)\s*$", args.strip())
    if m:
        if m.group(1) not in ORDERS:
            raise TranslateError("unknown memory order " + m.group(1))
        return ORDERS[m.group(1)]
    m = re.search(r"std::memory_order::(\w+)\s*$", args.strip())
    if m and m.group(1) in ORDERS:
        return ORDERS[m.group(1)]
    return "seqCst" if atomic else "plain"


def accesses(code, atomic):
    """Shared-memory accesses of a method body in textual order:
    [(field, kind, order)]."""
    res = []
    pos = 0
    tok = re.compile(r"(\+\+|--)?\s*\b(ready_|locked_thread_id_|lock_count_)\b")
    while True:
        m = tok.search(code, pos)
        if not m:
            break
        pre, name = m.group(1), m.group(2)
        fld = FIELDS[name]
        rest = code[m.end():]
        at = atomic.get(name, False)
        mm = re.match(r"\s*\.\s*(\w+)\s*\(", rest)
        if mm:
            op = mm.group(1)
            j = m.end() + mm.end() - 1
            # balanced parentheses
            depth, k = 0, j
            while k < len(code):
                if code[k] == "(":
                    depth += 1
                elif code[k] == ")":
                    depth -= 1
                    if depth == 0:
                        break
                k += 1
            args = code[j + 1:k]
            kinds = {"test_and_set": "rmw", "clear": "write", "load": "read", "store": "write",
                     "exchange": "rmw", "fetch_add": "rmw", "fetch_sub": "rmw",
                     "compare_exchange_strong": "rmw", "compare_exchange_weak": "rmw"}
            if op not in kinds:
                raise TranslateError("unknown operation %s.%s()" % (name, op))
            res.append((fld, kinds[op], order_of(args, True)))
            pos = k + 1
            continue
        order = "seqCst" if at else "plain"
        if pre:
            res.append((fld, "rmw", order))
        elif re.match(r"\s*(\+\+|--|[-+*/|&^]=)", rest):
            res.append((fld, "rmw", order))
        elif re.match(r"\s*=(?!=)", rest):
            res.append((fld, "write", order))
        else:
            res.append((fld, "read", order))
        pos = m.end()
    return res


def parse(path=None):
    path = path or os.path.join(repo(), "primitiv", "core", "spinlock.h")
    src = strip(open(path).read())
    out = {}
    for cls in ("Spinlock", "RecursiveSpinlock"):
        body = class_body(src, cls)
        mem = members(body)
        if "ready_" not in mem:
            raise TranslateError("class %s has no member ready_" % cls)
        atomic = {n: is_atomic_type(t) for n, t in mem.items()}
        for n in mem:
            if n not in FIELDS:
                raise TranslateError("class %s has a data member the model does not know: %s %s" % (cls, mem[n], n))
        # lock() must be the loop around try_lock() that the model assumes
        lock = "".join(method_body(body, "lock").split())
        if lock != "while(!try_lock());":
            raise TranslateError("%s::lock() is not `while (!try_lock());`: %s" % (cls, lock))
        out[cls] = {
            "members": mem, "atomic": atomic, "table": member_table(body),
            "try_lock": accesses(method_body(body, "try_lock"), atomic),
            "unlock": accesses(method_body(body, "unlock"), atomic),
        }
    out["mixins"] = parse_mixins()
    return out


MIXIN_MEMBERS = {"Identifiable": {"next_id_": "nextId", "objects_": "objects", "mutex_": "mutex", "id_": "objId"},
                 "DefaultSettable": {"default_obj_": "defaultObj"}}


def parse_mixins():
    base = os.path.join(repo(), "primitiv", "core", "mixins")
    res = {}
    src = strip(open(os.path.join(base, "identifiable.h")).read())
    body = class_body(src, "Identifiable")
    tab = member_table(body)
    for n in tab:
        if n not in MIXIN_MEMBERS["Identifiable"]:
            raise TranslateError("Identifiable has a data member the model does not know: %s %s" % (tab[n][0], n))
    for n in MIXIN_MEMBERS["Identifiable"]:
        if n not in tab:
            raise TranslateError("Identifiable has no member " + n)
    shared = ["next_id_", "objects_"]
    res["Identifiable"] = {"table": tab, "guarded": [
        ("ctor", guarded(method_body(body, "Identifiable"), shared)),
        ("dtor", guarded(method_body(body, "~Identifiable"), shared)),
        ("getObject", guarded(method_body(body, "get_object", r"[^)]*"), shared))]}
    # nothing else in the class may touch the registry
    rest = body
    for nm, pr in (("Identifiable", r"\s*"), ("~Identifiable", r"\s*"), ("get_object", r"[^)]*")):
        rest = rest.replace(method_body(body, nm, pr), "")
    for n in shared:
        # the member declarations themselves are the only other mentions
        if len(re.findall(r"\b%s\b" % n, rest)) != 1:
            raise TranslateError("Identifiable: %s is used outside the constructor, the destructor and get_object()" % n)
    src = strip(open(os.path.join(base, "default_settable.h")).read())
    body = class_body(src, "DefaultSettable")
    tab = member_table(body)
    if set(tab) != {"default_obj_"}:
        raise TranslateError("DefaultSettable: data members are %s, the model knows default_obj_ only" % sorted(tab))
    res["DefaultSettable"] = {"table": tab}
    return res


def lean_text(d):
    def decls(name, c):
        at = {FIELDS[n]: a for n, a in c["atomic"].items()}
        def b(f):
            return "true" if at.get(f, False) else "false"
        def acc(l):
            return "[" + ", ".join("⟨.%s, .%s, .%s⟩" % a for a in l) + "]"
        types = ", ".join("%s : %s" % (n, t) for n, t in sorted(c["members"].items()))
        return ("/-- %s -/\n"
                "def %s : Decls where\n"
                "  atomic := fun f => match f with\n"
                "    | .ready => %s\n    | .owner => %s\n    | .count => %s\n"
                "  tryLock := %s\n"
                "  unlock := %s\n" % (types, name, b("ready"), b("owner"), b("count"), acc(c["try_lock"]), acc(c["unlock"])))
    def q(x):
        return '"' + x.replace("\\", "\\\\").replace('"', '\\"') + '"'
    rows = []
    def row(cls, member, ty, storage, atomic):
        rows.append("  ⟨.%s, .%s, %s, %s, %s, %s, %d⟩" % (cls, member, q(ty), "true" if "static" in storage else "false",
                    "true" if "thread_local" in storage else "false", "true" if atomic else "false", int_bits(ty)))
    for cls, lc in (("Spinlock", "spinlock"), ("RecursiveSpinlock", "recursiveSpinlock")):
        for n, (ty, st) in sorted(d[cls]["table"].items()):
            row(lc, FIELDS[n], ty, st, is_atomic_type(ty))
    for cls, lc in (("Identifiable", "identifiable"), ("DefaultSettable", "defaultSettable")):
        for n, (ty, st) in sorted(d["mixins"][cls]["table"].items()):
            row(lc, MIXIN_MEMBERS[cls][n], ty, st, is_atomic_type(ty))
    table = ("/-- every data member of the four classes: class, member, declared type, static?, thread_local?, atomic type?,\n"
             "width in bits when the type is a fixed-width unsigned integer (else 0) -/\n"
             "def members : List MemberDecl := [\n" + ",\n".join(rows) + "]\n\n"
             "/-- Identifiable: does the body take std::lock_guard<std::mutex>(mutex_) before it first touches next_id_ / objects_?\n"
             "(no other code of the class mentions them) -/\n"
             "def identGuarded : List (IdentMethod × Bool) := [" +
             ", ".join("(.%s, %s)" % (m, "true" if g else "false") for m, g in d["mixins"]["Identifiable"]["guarded"]) + "]\n")
    return ("-- GENERATED by /verif/translate/spinlock_decls.py from primitiv/core/spinlock.h, mixins/identifiable.h, mixins/default_settable.h — do not edit.\n"
            "import PrimitivModel.Model.Spinlock\n"
            "namespace Primitiv.Gen.SpinlockDecls\n"
            "open Primitiv.Lock\n\n"
            + decls("spin", d["Spinlock"]) + "\n" + decls("rspin", d["RecursiveSpinlock"]) + "\n" + table +
            "\nend Primitiv.Gen.SpinlockDecls\n")


def regenerate(out=OUT):
    """Write Gen/SpinlockDecls.lean (only when the text changes, so that lake
    does not rebuild needlessly).  Returns the parsed table."""
    d = parse()
    txt = lean_text(d)
    os.makedirs(os.path.dirname(out), exist_ok=True)
    old = open(out).read() if os.path.exists(out) else None
    if old != txt:
        tmp = out + ".tmp%d" % os.getpid()
        with open(tmp, "w") as f:
            f.write(txt)
        os.replace(tmp, out)
    return d


def differs_from_golden(d):
    if not os.path.exists(GOLDEN):
        return None
    return open(GOLDEN).read() != lean_text(d)


if __name__ == "__main__":
    if "--stdout" in sys.argv:
        sys.stdout.write(lean_text(parse()))
    elif "--check-golden" in sys.argv:
        d = parse()
        r = differs_from_golden(d)
        print("golden: " + ("missing" if r is None else "differs" if r else "same"))
        sys.exit(1 if r else 0)
    else:
        regenerate()
        print("wrote", OUT)
