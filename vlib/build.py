"""Sanitizer builds of primitiv straight from /repo's working tree, with an
object cache keyed by the content of the sources, so that a check always runs
against the code that is in /repo *now* and an unchanged file is compiled once.
"""
import hashlib, os, re, subprocess, sys, glob, fcntl, shutil, time
from concurrent.futures import ThreadPoolExecutor

VERIF = os.path.dirname(os.path.dirname(os.path.abspath(__file__)))
REPO = os.environ.get("VERIF_REPO", "/repo")
CACHE = os.path.join(VERIF, ".cache")
GUARD = "PRIMITIV_VERIF"

VARIANTS = {
    # name: (compiler flags, config defines)
    "asan": (["-O1", "-g1", "-fsanitize=address,undefined", "-fno-sanitize-recover=undefined",
              "-fno-omit-frame-pointer"], ["PRIMITIV_USE_EIGEN"]),
    "asan_cache": (["-O1", "-g1", "-fsanitize=address,undefined", "-fno-sanitize-recover=undefined",
                    "-fno-omit-frame-pointer"], ["PRIMITIV_USE_EIGEN", "PRIMITIV_USE_CACHE"]),
    "plain": (["-O1"], ["PRIMITIV_USE_EIGEN"]),
    "tsan": (["-O1", "-g1", "-fsanitize=thread"], ["PRIMITIV_USE_EIGEN"]),
}
COMMON = ["-std=c++11", "-fPIC", "-D" + GUARD, "-w"]


def sha(*parts):
    h = hashlib.sha256()
    for p in parts:
        if isinstance(p, str):
            p = p.encode()
        h.update(p)
        h.update(b"\0")
    return h.hexdigest()[:24]


def read(p):
    with open(p, "rb") as f:
        return f.read()


class Lock:
    def __init__(self, name):
        os.makedirs(CACHE, exist_ok=True)
        self.path = os.path.join(CACHE, name + ".lock")

    def __enter__(self):
        self.f = open(self.path, "w")
        fcntl.flock(self.f, fcntl.LOCK_EX)
        return self

    def __exit__(self, *a):
        fcntl.flock(self.f, fcntl.LOCK_UN)
        self.f.close()


def repo_version():
    txt = read(os.path.join(REPO, "CMakeLists.txt")).decode()
    m = re.search(r"project\s*\(\s*primitiv\s+VERSION\s+(\d+)\.(\d+)\.(\d+)", txt)
    if not m:
        return ("0", "0", "0")
    return m.groups()


def config_dir(variant):
    """Directory holding primitiv/config.h and primitiv/version.h for a variant."""
    defs = VARIANTS[variant][1]
    d = os.path.join(CACHE, "cfg", variant)
    os.makedirs(os.path.join(d, "primitiv"), exist_ok=True)
    cfg = "#ifndef PRIMITIV_CONFIG_H_\n#define PRIMITIV_CONFIG_H_\n"
    for x in defs:
        cfg += "#define %s\n" % x
    cfg += ("#if defined(__x86_64__) || defined(__ppc64__)\n#define PRIMITIV_WORDSIZE_64\n#endif\n"
            "#ifdef __i386\n#define PRIMITIV_MAYBE_FPMATH_X87\n#endif\n#endif\n")
    maj, mi, pa = repo_version()
    ver = ("#ifndef PRIMITIV_VERSION_H_\n#define PRIMITIV_VERSION_H_\n"
           '#define PRIMITIV_VERSION "%s.%s.%s"\n#define PRIMITIV_VERSION_MAJOR %s\n'
           "#define PRIMITIV_VERSION_MINOR %s\n#define PRIMITIV_VERSION_PATCH %s\n#endif\n" % (maj, mi, pa, maj, mi, pa))
    for name, txt in (("config.h", cfg), ("version.h", ver)):
        p = os.path.join(d, "primitiv", name)
        if not os.path.exists(p) or read(p).decode() != txt:
            with open(p, "w") as f:
                f.write(txt)
    return d


def lib_sources():
    pats = ["primitiv/core/*.cc", "primitiv/core/mixins/*.cc", "primitiv/contrib/*.cc", "primitiv/msgpack/*.cc",
            "primitiv/devices/naive/*.cc", "primitiv/devices/naive/ops/*.cc",
            "primitiv/devices/eigen/*.cc", "primitiv/devices/eigen/ops/*.cc",
            "primitiv/c/*.cc", "primitiv/c/internal/*.cc",
            "primitiv/c/devices/naive/*.cc", "primitiv/c/devices/eigen/*.cc"]
    out = []
    for p in pats:
        out += sorted(glob.glob(os.path.join(REPO, p)))
    return out


def headers_hash():
    h = hashlib.sha256()
    hs = []
    for root, _, files in os.walk(os.path.join(REPO, "primitiv")):
        if "/cuda" in root or "/opencl" in root:
            continue
        for f in files:
            if f.endswith(".h"):
                hs.append(os.path.join(root, f))
    for p in sorted(hs):
        h.update(p.encode())
        h.update(read(p))
    return h.hexdigest()[:24]


def cxx():
    return os.environ.get("VERIF_CXX", "g++")


def eigen_source_flags():
    """The per-source compile flags primitiv/CMakeLists.txt gives the Eigen kernels under GCC
    (`set_source_files_properties(${primitiv_eigen_ops_SRCS} PROPERTIES COMPILE_FLAGS ...)`):
    read from the working tree on every build, so that the checks run the Eigen backend as
    the repository builds it and see a change of those flags (today the only flag is -march=native,
    which is the one kind of flag that is not taken over, see below).  Version-conditional warning
    switches are skipped."""
    import re
    try:
        txt = read(os.path.join(REPO, "primitiv", "CMakeLists.txt"))
    except OSError:
        return []
    if isinstance(txt, bytes):
        txt = txt.decode("utf-8", "replace")
    m = re.search(r'if\(CMAKE_CXX_COMPILER_ID MATCHES "GNU"\)(.*?)elseif\(CMAKE_CXX_COMPILER_ID MATCHES "Clang"\)', txt, re.S)
    body = m.group(1) if m else ""
    body = re.sub(r'if\s*\(CMAKE_CXX_COMPILER_VERSION.*?endif\(\)\s*endif\(\)', "", body, flags=re.S)
    out = []
    for lit in re.findall(r'set\(\s*primitiv_eigen_COMPILE_FLAGS\s*"([^"]*)"\s*\)', body, re.S):
        out += [t for t in lit.split() if t.startswith("-") and not t.startswith("-W")]
    # The instruction-set selection is NOT taken over: with -march=native the vector width (hence which elements go
    # through Eigen's packet kernels and which through the scalar head/tail) depends on the host and on the alignment
    # of each buffer, so results differ in the last bit between two same-seeded devices of one process (observed under
    # AVX-512: gumbel) — a check could not tell that from a defect.  The kernels are built for the baseline x86-64 ISA.
    return [t for t in out if not (t.startswith("-march") or t.startswith("-mtune") or t.startswith("-mavx") or t.startswith("-msse") or t.startswith("-mfma"))]


def is_eigen_kernel(src):
    return "/primitiv/devices/eigen/ops/" in src.replace(os.sep, "/")


def compile_one(src, obj, flags, incs):
    extra = eigen_source_flags() if is_eigen_kernel(src) else []
    cmd = [cxx()] + COMMON + flags + extra + incs + ["-c", src, "-o", obj + ".tmp%d" % os.getpid()]
    r = subprocess.run(cmd, capture_output=True, text=True)
    if r.returncode != 0:
        return (src, r.stderr[-4000:])
    os.replace(obj + ".tmp%d" % os.getpid(), obj)
    return None


class BuildError(Exception):
    pass


class CacheEvicted(Exception):
    """A binary or library of the cache disappeared while a check was using it (another process pruned the cache):
    the check process restarts once and rebuilds (vlib/check.py main)."""


def touch(path):
    """Mark a cache entry as used now (the prune below goes by the later of atime and mtime; with `relatime` mounts
    the atime of a file that is only executed or linked is not refreshed)."""
    try:
        os.utime(path, None)
    except OSError:
        pass


def build_lib(variant="asan", jobs=None, verbose=False):
    """Returns (path to libprimitiv_verif.so, info dict). Raises BuildError when
    the working tree does not compile."""
    jobs = jobs or (os.cpu_count() or 4)
    flags, _ = VARIANTS[variant]
    cfg = config_dir(variant)
    incs = ["-I" + cfg, "-I" + REPO, "-I/usr/include/eigen3"]
    hh = headers_hash()
    objdir = os.path.join(CACHE, "obj")
    os.makedirs(objdir, exist_ok=True)
    todo, objs = [], []
    for src in lib_sources():
        key = sha(variant, " ".join(flags + (eigen_source_flags() if is_eigen_kernel(src) else [])), hh, os.path.relpath(src, REPO), read(src),
                  read(os.path.join(cfg, "primitiv/config.h")))
        obj = os.path.join(objdir, key + ".o")
        objs.append(obj)
        if not os.path.exists(obj):
            todo.append((src, obj))
        else:
            touch(obj)
    t0 = time.time()
    with Lock("build"):
        # (one lock for every variant: prune() below must not remove objects another build is about to link)
        todo = [(s, o) for (s, o) in zip(lib_sources(), objs) if not os.path.exists(o)]
        if todo:
            with ThreadPoolExecutor(jobs) as ex:
                res = list(ex.map(lambda so: compile_one(so[0], so[1], flags, incs), todo))
            errs = [r for r in res if r]
            if errs:
                raise BuildError("compile failed: %s\n%s" % (errs[0][0], errs[0][1]))
        libkey = sha(variant, *[os.path.basename(o) for o in objs])
        libdir = os.path.join(CACHE, "lib")
        os.makedirs(libdir, exist_ok=True)
        lib = os.path.join(libdir, "libprimitiv_%s_%s.so" % (variant, libkey))
        if os.path.exists(lib):
            touch(lib)
        if not os.path.exists(lib):
            cmd = [cxx(), "-shared", "-o", lib + ".tmp"] + flags + objs + ["-lpthread"]
            r = subprocess.run(cmd, capture_output=True, text=True)
            if r.returncode != 0:
                raise BuildError("link failed:\n" + r.stderr[-4000:])
            os.replace(lib + ".tmp", lib)
        prune()
    return lib, {"variant": variant, "compiled": len(todo), "objects": len(objs), "wall_s": round(time.time() - t0, 1), "incs": incs, "flags": flags}


def build_harness(name, variant="asan", extra_flags=None, link_lib=True):
    """Compile /verif/harness/<name>.cc against the library built from /repo."""
    flags, _ = VARIANTS[variant]
    cfg = config_dir(variant)
    incs = ["-I" + cfg, "-I" + REPO, "-I/usr/include/eigen3", "-I" + os.path.join(VERIF, "harness")]
    src = os.path.join(VERIF, "harness", name + ".cc")
    common_h = sorted(glob.glob(os.path.join(VERIF, "harness", "*.h")))
    lib = None
    if link_lib:
        lib, _ = build_lib(variant)
    key = sha(variant, " ".join(flags), " ".join(extra_flags or []), headers_hash(), read(src), *[read(h) for h in common_h], lib or "nolib")
    bindir = os.path.join(CACHE, "bin")
    os.makedirs(bindir, exist_ok=True)
    exe = os.path.join(bindir, "%s_%s_%s" % (name, variant, key))
    if os.path.exists(exe):
        touch(exe)
        return exe
    with Lock("harness-" + name + variant):  # (links against the .so, not against objects)
        if os.path.exists(exe):
            touch(exe)
            return exe
        cmd = [cxx()] + COMMON + flags + (extra_flags or []) + incs + [src, "-o", exe + ".tmp"]
        if lib:
            cmd += [lib, "-Wl,-rpath," + os.path.dirname(lib)]
        cmd += ["-lpthread"]
        r = subprocess.run(cmd, capture_output=True, text=True)
        if r.returncode != 0:
            raise BuildError("harness %s failed to compile:\n%s" % (name, r.stderr[-6000:]))
        os.replace(exe + ".tmp", exe)
    return exe


def prune(max_bytes=30 << 30):
    """Keep the cache bounded: drop least recently used objects/libs/bins."""
    ents = []
    for sub in ("obj", "lib", "bin"):
        d = os.path.join(CACHE, sub)
        if not os.path.isdir(d):
            continue
        for f in os.listdir(d):
            p = os.path.join(d, f)
            try:
                st = os.stat(p)
                ents.append((max(st.st_atime, st.st_mtime), st.st_size, p))
            except OSError:
                pass
    total = sum(e[1] for e in ents)
    if total <= max_bytes:
        return
    now = time.time()
    for at, sz, p in sorted(ents):
        if now - at < 12 * 3600:
            break           # never remove anything used (built, linked against or handed out: see touch()) in the last 12 hours
        try:
            os.remove(p)
        except OSError:
            pass
        total -= sz
        if total <= max_bytes * 0.7:
            break


if __name__ == "__main__":
    v = sys.argv[1] if len(sys.argv) > 1 else "asan"
    lib, info = build_lib(v)
    print(lib, info)
