"""Generic part of a property check: obligations, correspondence, decision,
VIOLATION / KNOWN-FINDING protocol, evidence."""
import collections, hashlib, importlib, json, os, random, re, sys, time, traceback
from . import build, lean, run

VERIF = build.VERIF
EVID = os.path.join(VERIF, "evidence")
REPLAYS = os.path.join(EVID, "replays")
KNOWN_FILE = os.path.join(VERIF, "known_findings.json")

COMMON_TRUSTED = [
    "Lean 4.33.0 kernel (thorough tier: leanchecker re-check of every compiled module of the cone)",
    "axioms allowed in any property theorem: propext, Classical.choice, Quot.sound (audited with #print axioms on every run; anything else fails the obligation)",
    "translator /verif/translate (Python): that the generated Lean text means what the C++ text means, for the subset it parses",
    "correspondence harness /verif/harness + generators /verif/props: hand-written models are tied to the code only on the inputs generated",
    "g++ 12.2, ASan/UBSan runtime, libstdc++",
]


def stable_hash(s):
    return int(hashlib.sha256(s.encode()).hexdigest()[:12], 16)


def load_known():
    if not os.path.exists(KNOWN_FILE):
        return []
    return json.load(open(KNOWN_FILE)).get("findings", [])


class Check:
    def __init__(self, pid, tier, seed):
        self.pid, self.tier, self.seed = pid, tier, seed
        self.rng = random.Random(seed * 1000003 + stable_hash(pid))
        self.t0 = time.time()
        self.evaluations = 0
        self.nontrivial = set()
        self.samples = []
        self.traces = 0
        self.dist = collections.Counter()
        self.violations = []   # dicts
        self.known_hits = []
        self.oblig = None
        self.notes = []
        self.assumptions = []
        self.trusted = list(COMMON_TRUSTED)
        self.stated_not_proved = []
        self.rule = ""
        self.extra_cov = {}
        self.known = [k for k in load_known() if k.get("property") == pid and k.get("status") == "known"]
        self._replay_n = 0
        self.printed = []

    # ---------------------------------------------------------------- lean
    def obligations(self, mods, drivers=()):
        """Build the property's Lean modules and the model drivers it needs;
        every `theorem` of the modules is one obligation."""
        done = getattr(self, "_mods_done", set())
        ddone = getattr(self, "_drv_done", set())
        if self.oblig is not None and set(mods) <= done and set(drivers) <= ddone:
            return self.oblig          # already built and audited in this run
        self._mods_done = done | set(mods)
        self._drv_done = ddone | set(drivers)
        res = lean.check_obligations(mods, self.tier, drivers)
        if self.oblig is None:
            self.oblig = res
        else:
            for k in ("obligations", "discharged", "cone"):
                self.oblig[k] += [x for x in res[k] if x not in self.oblig[k]]
            self.oblig["failed"].update(res["failed"])
            self.oblig["axioms"].update(res["axioms"])
            self.oblig["ok"] = self.oblig["ok"] and res["ok"]
            self.oblig["log_tail"] += res["log_tail"]
        return res

    def broken_obligations(self):
        return dict(self.oblig["failed"]) if self.oblig else {}

    # ------------------------------------------------------- correspondence
    def count(self, line, impl_out, nontrivial):
        self.evaluations += 1
        if nontrivial:
            self.nontrivial.add(line)
        op = line.split(" ", 1)[0]
        kind = impl_out.split(" ", 1)[0] if impl_out else "none"
        self.dist[op + ":" + kind] += 1

    def correspond(self, family, harness, streams, stateful=False, variant="asan", cmp=run.same,
                   nontrivial=None, judge=None, harness_args=None, env=None, timeout=300, model_family=None,
                   post=None, link_lib=True, extra_flags=None):
        """streams: list of lists of lines. Returns list of disagreements
        [{family, lines, index, line, impl, model}] and list of judged
        violations [{family, lines, index, line, impl, model, what}]."""
        exe = build.build_harness(harness, variant, extra_flags=extra_flags, link_lib=link_lib)
        nontrivial = nontrivial or (lambda line, out: out.startswith("ok"))
        disagreements, judged, crashes = [], [], []
        mfam = model_family or family
        if not stateful:
            # one process for all lines
            flat = [l for s in streams for l in s]
            streams = [flat] if flat else []
        for lines in streams:
            if not lines:
                continue
            impl, reports = run.run_impl(exe, lines, timeout=timeout, env=env, stateful=stateful, args=harness_args)
            model = run.run_model(mfam, lines)
            if post:
                impl, model = post(lines, impl, model)
            self.traces += 1
            for i, line in enumerate(lines):
                if impl[i] == "skipped":
                    continue
                self.count(line, impl[i], nontrivial(line, impl[i]))
                if len(self.samples) < 6 and nontrivial(line, impl[i]) and self.rng.random() < 0.3:
                    self.samples.append({"family": family, "op": line, "impl": impl[i][:200], "model": model[i][:200]})
                def mkrec(i=i, line=line):
                    # built only when needed: the prefix copy is quadratic on long stateful streams
                    return {"family": family, "harness": harness, "variant": variant, "stateful": stateful,
                            "lines": lines[: i + 1] if stateful else [line], "index": i, "line": line,
                            "impl": impl[i], "model": model[i], "harness_args": harness_args}
                if not cmp(impl[i], model[i]):
                    disagreements.append(mkrec())
                    if stateful:
                        break
                if judge:
                    w = judge(line, impl[i], model[i])
                    if w:
                        r2 = mkrec(); r2["what"] = w
                        judged.append(r2)
            for r in reports:
                crashes.append(r)
        return disagreements, judged, crashes

    # ------------------------------------------------------------ decisions
    def match_known(self, key):
        for k in self.known:
            pat = k.get("match")
            if pat and re.search(pat, key):
                return k
        return None

    def report(self, key, what, replay, found_input=True):
        """Record a violation (or a known finding). `key` is the canonical
        identification of the failing input / call site (matched against
        known_findings.json); `replay` is a JSON-able object."""
        k = self.match_known(key)
        if k:
            if k["id"] not in [h["id"] for h in self.known_hits]:
                self.known_hits.append({"id": k["id"], "what": k["what"], "key": key})
            return False
        for v in self.violations:
            if v["key"] == key:
                return True
        if len(self.violations) >= 40:
            # enough replays: keep counting, stop writing files
            self.suppressed = getattr(self, "suppressed", 0) + 1
            return True
        os.makedirs(os.path.join(REPLAYS, self.pid), exist_ok=True)
        self._replay_n += 1
        path = os.path.join(REPLAYS, self.pid, "%s-%s-%d.json" % (self.pid, self.tier, self._replay_n))
        obj = {"property": self.pid, "seed": self.seed, "tier": self.tier, "key": key, "what": what,
               "found_failing_input": found_input, "replay": replay}
        with open(path, "w") as f:
            json.dump(obj, f, indent=1)
        self.violations.append({"key": key, "what": what, "path": path, "found_input": found_input})
        return True

    # -------------------------------------------------------------- finish
    def finish(self, level="proof", checker_cmd=None):
        wall = round(time.time() - self.t0, 1)
        ob = self.oblig or {"obligations": [], "discharged": [], "failed": {}, "axioms": {}, "cone": []}
        axioms_used = sorted({a for v in ob["axioms"].values() for a in v})
        cov = {
            "obligations": len(ob["obligations"]),
            "discharged": len(ob["discharged"]),
            "checker_cmd": checker_cmd or ("cd /verif/lean && lake build " + " ".join(m for m in ob["cone"] if ".Props." in m) + "  # then #print axioms on every theorem; thorough: lake env leanchecker <module>"),
            "trusted_base": self.trusted + ["axioms actually used by this property's theorems: " + (", ".join(axioms_used) or "none")],
            "obligation_names": ob["obligations"],
            "failed_obligations": ob["failed"],
            "module_cone": ob["cone"],
            "stated_not_proved": self.stated_not_proved,
            "evaluations": self.evaluations,
            "distinct_nontrivial": len(self.nontrivial),
            "rule": self.rule,
            "samples": self.samples[:8] + [{"obligation": n} for n in ob["obligations"][:4]],
            "traces_validated_against_impl": self.traces,
            "distribution": dict(self.dist.most_common(60)),
            "known_findings_hit": self.known_hits,
            "notes": self.notes,
        }
        cov.update(self.extra_cov)
        ev = {"property_id": self.pid, "tier": self.tier, "seed": self.seed, "level": level,
              "coverage": cov, "assumptions": self.assumptions, "wall_s": wall,
              "violations": len(self.violations)}
        if cov["discharged"] == 0:
            # the schema's proof form needs discharged >= 1; with nothing discharged the
            # file falls back to the exploration-style keys
            cov["discharged_count"] = cov.pop("discharged")
        # runs against another tree (VERIF_REPO: seeded-change experiments) must not
        # overwrite the evidence of /repo
        evdir = EVID if not os.environ.get("VERIF_REPO") else os.path.join(EVID, "scratch")
        os.makedirs(evdir, exist_ok=True)
        with open(os.path.join(evdir, self.pid + ".json"), "w") as f:
            json.dump(ev, f, indent=1)
        for h in self.known_hits:
            print("KNOWN-FINDING: property=%s %s [%s]" % (self.pid, h["what"], h["id"]))
        for v in self.violations:
            tail = "" if v["found_input"] else " no-failing-input-found"
            print("VIOLATION property=%s replay=%s%s" % (self.pid, v["path"], tail))
            print("  what: " + v["what"][:400])
        print("%s %s: obligations %d/%d, evaluations %d (distinct non-trivial %d), known findings %d, violations %d, %.1fs" % (
            self.pid, self.tier, len(ob["discharged"]), len(ob["obligations"]), self.evaluations,
            len(self.nontrivial), len(self.known_hits), len(self.violations), wall))
        sys.stdout.flush()
        return 1 if self.violations else 0


def shrink(lines, still_fails, max_runs=60):
    """Delta debugging on a list of lines; `still_fails(lines)` re-runs."""
    runs = 0
    n = 2
    cur = list(lines)
    while len(cur) >= 2 and runs < max_runs:
        chunk = max(1, len(cur) // n)
        reduced = False
        for i in range(0, len(cur), chunk):
            cand = cur[:i] + cur[i + chunk:]
            if not cand:
                continue
            runs += 1
            if still_fails(cand):
                cur = cand
                n = max(n - 1, 2)
                reduced = True
                break
            if runs >= max_runs:
                break
        if not reduced:
            if chunk == 1:
                break
            n = min(n * 2, len(cur))
    return cur


def main(argv):
    import argparse
    ap = argparse.ArgumentParser()
    ap.add_argument("pid")
    ap.add_argument("--tier", default=os.environ.get("VERIF_TIER", "quick"))
    ap.add_argument("--replay")
    a = ap.parse_args(argv)
    seed = int(os.environ.get("VERIF_SEED", "1") or "1")
    tier = a.tier if a.tier in ("quick", "thorough") else "quick"
    sys.path.insert(0, VERIF)
    mod = importlib.import_module("props." + a.pid)
    if a.replay:
        return mod.replay(a.replay) if hasattr(mod, "replay") else generic_replay(a.pid, a.replay)
    chk = Check(a.pid, tier, seed)
    if not os.environ.get("VERIF_NO_GLOBAL_REGEN"):
        # (every plugin also runs the translators it depends on; the global pass keeps all Gen files fresh.
        #  Parallel seeded-change experiments on different trees switch it off so that they do not
        #  overwrite each other's generated files.)
        try:
            from translate import regen
            regen.regenerate()
        except ImportError:
            pass
    try:
        mod.run(chk)
    except build.CacheEvicted as e:
        # a cached binary / library vanished under the running check (the cache was pruned by another process): start over
        # once — everything is rebuilt from the working tree; a second eviction is reported like any other internal error
        if not os.environ.get("VERIF_RESTARTED"):
            sys.stderr.write("check: %s; restarting the check once\n" % (e,))
            sys.stderr.flush(); sys.stdout.flush()
            os.environ["VERIF_RESTARTED"] = "1"
            os.execv(sys.executable, [sys.executable] + sys.argv)
        traceback.print_exc()
        chk.report("check-internal-error", "internal error of the check: %r" % (e,), {"error": traceback.format_exc()[-4000:]}, found_input=False)
    except build.BuildError as e:
        # the working tree does not compile: nothing can be shown to hold
        chk.report("build-failure", "the working tree does not build: " + str(e)[:1500], {"error": str(e)[:4000]}, found_input=False)
    except Exception as e:
        traceback.print_exc()
        chk.report("check-internal-error", "internal error of the check: %r" % (e,), {"error": traceback.format_exc()[-4000:]}, found_input=False)
    return chk.finish()


def generic_replay(pid, path):
    """Re-run the lines of a replay file on a fresh build of the working tree
    (implementation and model) and print both outputs."""
    obj = json.load(open(path))
    rp = obj.get("replay", {})
    print("replay of %s: %s" % (pid, obj.get("what", "")[:300]))
    if "lines" not in rp:
        print(json.dumps(rp, indent=1)[:3000])
        return 0
    exe = build.build_harness(rp["harness"], rp.get("variant", "asan"))
    mfam = rp["model_family"] if "model_family" in rp else rp.get("family")
    impl, reports = run.run_impl(exe, rp["lines"], stateful=rp.get("stateful", False), args=rp.get("harness_args"), env=rp.get("env"))
    model = None
    if mfam and os.path.exists(os.path.join(lean.LEAN_DIR, "Drivers")):
        try:
            lean.lake(["build", "drv_" + mfam])
            model = run.run_model(mfam, rp["lines"])
        except Exception as e:
            print("(no model side for this replay: %s)" % str(e)[:200])
    bad = 0
    for i, l in enumerate(rp["lines"]):
        im = impl[i] if i < len(impl) else "?"
        if model is not None:
            mark = " " if run.same(im, model[i]) else "!"
            if mark == "!":
                bad += 1
            print("%s %s\n    impl : %s\n    model: %s" % (mark, l, im, model[i]))
        else:
            flag = "!" if (im.startswith("crash") or " FAIL" in im or "CHANGED" in im) else " "
            if flag == "!":
                bad += 1
            print("%s %s\n    impl : %s" % (flag, l, im[:600]))
    for k in ("expected_spec", "expected_last_line", "observed", "observed_impl", "how"):
        if k in rp:
            print("%s: %s" % (k, str(rp[k])[:400]))
    for r in reports:
        print("crash report:", r["kind"], (r.get("stderr") or "")[-600:])
    return 1 if bad or reports else 0
