"""Lean side of a check: build the property's module cone, list the theorems
(obligations), find which ones failed, audit axioms, grep for escape hatches."""
import os, re, subprocess, time, json
from . import build

VERIF = build.VERIF
LEAN_DIR = os.path.join(VERIF, "lean")
ALLOWED_AXIOMS = {"propext", "Classical.choice", "Quot.sound"}
FORBIDDEN = re.compile(r"\bsorry\b|\badmit\b|^\s*axiom\s|native_decide|implemented_by|\bunsafe\s|maxHeartbeats\s+0|bv_decide|\bextern\b")


def mod_path(mod):
    return os.path.join(LEAN_DIR, mod.replace(".", "/") + ".lean")


def strip_comments(src):
    # remove /- -/ block comments (nested) and -- line comments
    out, i, depth = [], 0, 0
    n = len(src)
    while i < n:
        if src.startswith("/-", i):
            depth += 1; i += 2; continue
        if depth and src.startswith("-/", i):
            depth -= 1; i += 2; continue
        if depth:
            if src[i] == "\n":
                out.append("\n")
            i += 1; continue
        if src.startswith("--", i):
            while i < n and src[i] != "\n":
                i += 1
            continue
        out.append(src[i]); i += 1
    return "".join(out)


def cone(mods):
    """Transitive imports inside PrimitivModel."""
    seen, todo = [], list(mods)
    while todo:
        m = todo.pop()
        if m in seen:
            continue
        p = mod_path(m)
        if not os.path.exists(p):
            continue
        seen.append(m)
        for line in open(p):
            mm = re.match(r"\s*(?:public\s+)?import\s+(PrimitivModel\.[\w.]+)", line)
            if mm:
                todo.append(mm.group(1))
    return seen


def theorems(mod):
    """[(qualified name, first line, last line)] of the theorems in a module."""
    p = mod_path(mod)
    src = strip_comments(open(p).read())
    ns, res = [], []
    lines = src.split("\n")
    starts = []
    for i, l in enumerate(lines):
        m = re.match(r"\s*namespace\s+([\w.']+)", l)
        if m:
            ns.append(m.group(1)); continue
        m = re.match(r"\s*end\s+([\w.']+)\s*$", l)
        if m and ns and ns[-1] == m.group(1):
            ns.pop(); continue
        m = re.match(r"\s*(?:@\[[^\]]*\]\s*)?(?:private\s+|protected\s+)?theorem\s+([\w.'«»]+)", l)
        if m:
            q = ".".join(ns + [m.group(1)])
            starts.append((q, i + 1))
    decl = re.compile(r"\s*(?:@\[[^\]]*\]\s*)?(?:private\s+|protected\s+|noncomputable\s+)*(theorem|def|lemma|example|instance|structure|inductive|abbrev|namespace|end|section|open|variable|#)")
    for k, (q, ln) in enumerate(starts):
        end = len(lines)
        for j in range(ln, len(lines)):
            if decl.match(lines[j]) and not lines[j].startswith(" "):
                end = j
                break
        res.append((q, ln, end))
    return res


def lake(args, timeout=3600):
    with build.Lock("lake"):
        r = subprocess.run(["lake"] + args, cwd=LEAN_DIR, capture_output=True, text=True, timeout=timeout)
    return r.returncode, r.stdout + r.stderr


ERR_RE = re.compile(r"error:\s*(?:\./)?(\S+?\.lean):(\d+):(\d+)")


def build_modules(mods, timeout=3600, drivers=()):
    """Build modules (and the model drivers). Returns (ok, log, {file: [error lines]})."""
    rc, log = lake(["build"] + mods + ["drv_" + d for d in drivers], timeout)
    errs = {}
    for m in ERR_RE.finditer(log):
        errs.setdefault(os.path.normpath(m.group(1)), []).append(int(m.group(2)))
    return rc == 0, log, errs


def audit(mods, names):
    """#print axioms for every theorem. Returns {name: [axioms]} or raises."""
    d = os.path.join(LEAN_DIR, ".audit")
    os.makedirs(d, exist_ok=True)
    f = os.path.join(d, "Audit_%d.lean" % os.getpid())
    with open(f, "w") as fh:
        for m in mods:
            fh.write("import %s\n" % m)
        for n in names:
            fh.write("#print axioms %s\n" % n)
    with build.Lock("lake"):
        r = subprocess.run(["lake", "env", "lean", f], cwd=LEAN_DIR, capture_output=True, text=True, timeout=1800)
    os.remove(f)
    out = r.stdout + r.stderr
    res = {}
    flat = out.replace("\n", " ")
    for m in re.finditer(r"'([^']+)' depends on axioms: \[([^\]]*)\]", flat):
        res[m.group(1)] = [a.strip() for a in m.group(2).split(",") if a.strip()]
    for m in re.finditer(r"'([^']+)' does not depend on any axioms", flat):
        res[m.group(1)] = []
    return res, out


def grep_forbidden(mods):
    hits = []
    for m in mods:
        p = mod_path(m)
        src = strip_comments(open(p).read())
        for i, l in enumerate(src.split("\n")):
            if FORBIDDEN.search(l):
                hits.append("%s:%d: %s" % (m, i + 1, l.strip()[:120]))
    return hits


def leanchecker(mods):
    bad = []
    for m in mods:
        with build.Lock("lake"):
            r = subprocess.run(["lake", "env", "leanchecker", m], cwd=LEAN_DIR, capture_output=True, text=True, timeout=1800)
        if r.returncode != 0:
            bad.append((m, (r.stdout + r.stderr)[-500:]))
    return bad


def check_obligations(prop_mods, tier="quick", drivers=()):
    """Returns dict: obligations [names], discharged [names], failed {name: reason},
    axioms {name: [...]}, cone [...], log tail."""
    t0 = time.time()
    cn = cone(prop_mods)
    ok, log, errs = build_modules(prop_mods, drivers=drivers)
    obligations, failed, discharged = [], {}, []
    thms = {}
    for m in prop_mods:
        for (q, a, b) in theorems(m):
            obligations.append(q)
            thms[q] = (m, a, b)
    # attribute errors
    broken_files = set(errs.keys())
    prop_files = {os.path.normpath(os.path.relpath(mod_path(m), LEAN_DIR)): m for m in prop_mods}
    upstream_broken = [f for f in broken_files if f not in prop_files]
    if not ok:
        cones = {m: {os.path.normpath(os.path.relpath(mod_path(x), LEAN_DIR)) for x in cone([m]) if x != m} for m in prop_mods}
        for q, (m, a, b) in thms.items():
            rel = os.path.normpath(os.path.relpath(mod_path(m), LEAN_DIR))
            broken_imports = sorted(f for f in broken_files if f in cones.get(m, ()))
            if broken_imports:
                failed[q] = "an imported module no longer builds: " + ", ".join(broken_imports)
            elif upstream_broken and not errs.get(rel) and not os.path.exists(os.path.join(LEAN_DIR, ".lake/build/lib/lean", m.replace(".", "/") + ".olean")):
                failed[q] = "an imported module no longer builds: " + ", ".join(sorted(upstream_broken))
            elif rel in errs and any(a <= ln < max(b, a + 1) + 1 for ln in errs[rel]):
                failed[q] = "proof no longer checks (%s:%d)" % (rel, [ln for ln in errs[rel] if a <= ln <= b][0])
        if not failed and not errs:
            for q in thms:
                failed[q] = "lake build failed: " + log[-300:]
        # errors in a prop file outside any theorem (definitions): everything after is suspect
        for rel, lns in errs.items():
            if rel in prop_files:
                m = prop_files[rel]
                inside = set()
                for q, (mm, a, b) in thms.items():
                    if mm == m and any(a <= ln <= b for ln in lns):
                        inside.add(q)
                outside = [ln for ln in lns if not any(a <= ln <= b for q, (mm, a, b) in thms.items() if mm == m)]
                if outside:
                    for q, (mm, a, b) in thms.items():
                        if mm == m and a > min(outside) and q not in failed:
                            failed[q] = "a definition it depends on no longer elaborates (%s:%d)" % (rel, min(outside))
    axioms = {}
    audit_out = ""
    if ok:
        axioms, audit_out = audit(prop_mods, obligations)
        for q in obligations:
            if q not in axioms:
                failed[q] = "axiom audit did not report this theorem"
            else:
                extra = [a for a in axioms[q] if a not in ALLOWED_AXIOMS]
                if extra:
                    failed[q] = "depends on non-standard axioms: " + ", ".join(extra)
        hits = grep_forbidden(cn)
        if hits:
            for q in obligations:
                failed.setdefault(q, "forbidden construct in the module cone: " + hits[0])
        if tier == "thorough":
            bad = leanchecker(cn)
            for (m, msg) in bad:
                for q in obligations:
                    failed.setdefault(q, "leanchecker rejected %s: %s" % (m, msg))
    discharged = [q for q in obligations if q not in failed]
    return {"obligations": obligations, "discharged": discharged, "failed": failed, "axioms": axioms,
            "cone": cn, "ok": ok, "log_tail": log[-3000:], "wall_s": round(time.time() - t0, 1)}
