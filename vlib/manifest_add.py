#!/usr/bin/env python3
"""vlib/manifest_add.py <ID> "<level text>" "<level note>" "<technique>"  — add/replace a check entry."""
import json, sys
p = '/verif/MANIFEST.json'
m = json.load(open(p))
pid, text, note, tech = sys.argv[1:5]
e = {"property_id": pid, "quick_cmd": "./check %s --tier quick" % pid, "thorough_cmd": "./check %s --tier thorough" % pid,
     "evidence_file": "/verif/evidence/%s.json" % pid, "replay_cmd_template": "./check %s --replay {path}" % pid,
     "engine": "lean-model", "level_claimed": {"category": "proof", "text": text, "design_ref": "DESIGN.md section 3, " + pid},
     "level_note": note, "technique": tech}
m['checks'] = [c for c in m['checks'] if c['property_id'] != pid] + [e]
m['checks'].sort(key=lambda c: c['property_id'])
ids = sorted({c['property_id'] for c in m['checks']})
for eng in m['engines']:
    eng['serves_properties'] = ids
json.dump(m, open(p, 'w'), indent=1)
print("checks:", ids)
