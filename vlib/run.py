"""Running operation lines on the implementation harness and on the Lean model
driver, and comparing the two output streams."""
import os, subprocess, sys, time, signal
from . import build

VERIF = build.VERIF
LEAN_DIR = os.path.join(VERIF, "lean")
def drv_exe(family):
    return os.path.join(LEAN_DIR, ".lake", "build", "bin", "drv_" + family)

ASAN_ENV = {
    "ASAN_OPTIONS": "detect_leaks=1:alloc_dealloc_mismatch=1:allocator_may_return_null=1:abort_on_error=0:exitcode=99:max_allocation_size_mb=3000:detect_stack_use_after_return=0",
    "UBSAN_OPTIONS": "print_stacktrace=0:halt_on_error=1:exitcode=98",
    "LSAN_OPTIONS": "exitcode=97",
    "TSAN_OPTIONS": "exitcode=96:halt_on_error=1",
}


def classify_crash(rc, stderr):
    s = stderr or ""
    kind = "signal" if rc is not None and rc < 0 else "exit%s" % rc
    for pat, k in (("alloc-dealloc-mismatch", "asan-alloc-dealloc-mismatch"),
                   ("heap-buffer-overflow", "asan-heap-buffer-overflow"),
                   ("stack-buffer-overflow", "asan-stack-buffer-overflow"),
                   ("global-buffer-overflow", "asan-global-buffer-overflow"),
                   ("heap-use-after-free", "asan-use-after-free"),
                   ("double-free", "asan-double-free"),
                   ("SEGV", "asan-segv"), ("FPE", "asan-fpe"),
                   ("stack-overflow", "asan-stack-overflow"),
                   ("requested allocation size", "asan-bad-alloc-size"),
                   ("runtime error:", "ubsan"),
                   ("detected memory leaks", "lsan-leak"),
                   ("data race", "tsan-race"),
                   ("terminate called", "terminate")):
        if pat in s:
            kind = k
            break
    return kind


def run_proc(cmd, lines, timeout, env=None):
    """Feed lines; return (output lines, returncode, stderr tail)."""
    e = dict(os.environ)
    if env:
        e.update(env)
    data = ("\n".join(lines) + "\n").encode()
    try:
        try:
            p = subprocess.run(cmd, input=data, capture_output=True, timeout=timeout, env=e)
        except FileNotFoundError:
            from vlib import build as _b
            raise _b.CacheEvicted("executable %s is gone" % cmd[0])
        err = p.stderr.decode(errors="replace")
        if p.returncode == 127 and "error while loading shared libraries" in err:
            from vlib import build as _b
            raise _b.CacheEvicted("a library of %s is gone: %s" % (cmd[0], err[-300:]))
        out = p.stdout.decode(errors="replace").split("\n")
        if out and out[-1] == "":
            out.pop()
        return out, p.returncode, err[-6000:]
    except subprocess.TimeoutExpired as ex:
        out = (ex.stdout or b"").decode(errors="replace").split("\n")
        if out and out[-1] == "":
            out.pop()
        return out, "timeout", (ex.stderr or b"").decode(errors="replace")[-3000:]


def run_impl(exe, lines, timeout=120, env=None, stateful=False, args=None):
    """Run lines on the implementation harness. A crash (sanitizer abort,
    signal, timeout) becomes the outcome `crash <kind>` of the line being
    executed. For a stateless family the remaining lines continue in a fresh
    process; for a stateful one the stream ends there (remaining lines are
    reported as `skipped`).  Returns (outputs, crash_reports)."""
    env2 = dict(ASAN_ENV)
    if env:
        env2.update(env)
    outs, reports = [], []
    rest = list(lines)
    cmd = [exe] + (args or [])
    guard = 0
    while rest:
        guard += 1
        o, rc, err = run_proc(cmd, rest, timeout, env2)
        if rc == 0 and len(o) >= len(rest):
            outs += o[:len(rest)]
            rest = []
            break
        # rc != 0 or short output
        n = len(o)
        if n >= len(rest):
            # all lines answered but the process failed at exit (e.g. a leak report)
            kind = "timeout" if rc == "timeout" else classify_crash(rc, err)
            outs += o[:len(rest)]
            reports.append({"line": None, "kind": kind, "stderr": err[-2500:], "at_exit": True})
            rest = []
            break
        kind = "timeout" if rc == "timeout" else classify_crash(rc, err)
        outs += o[:n]
        outs.append("crash " + kind)
        reports.append({"line": rest[n], "kind": kind, "stderr": err[-2500:], "at_exit": False})
        rest = rest[n + 1:]
        if stateful or guard > 200:
            outs += ["skipped"] * len(rest)
            rest = []
    return outs, reports


def run_model(family, lines, timeout=300):
    o, rc, err = run_proc([drv_exe(family)], lines, timeout)
    if rc != 0 or len(o) != len(lines):
        raise RuntimeError("model driver failed for family %s: rc=%s out=%d/%d\n%s" % (family, rc, len(o), len(lines), err))
    return o


def norm_model(o):
    """The model prints `crash` where it predicts undefined behaviour; the
    implementation side prints `crash <kind>`."""
    return o


def same(impl, model):
    if impl == model:
        return True
    if model == "crash" and impl.startswith("crash"):
        return True
    return False


def diff_streams(lines, impl, model, cmp=same):
    """Indices where the two streams differ."""
    return [i for i in range(len(lines)) if not cmp(impl[i], model[i])]
