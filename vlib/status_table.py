#!/usr/bin/env python3
"""Markdown table of the per-property status from evidence/*.json (for DESIGN.md section 8.5)."""
import glob, json, os
print("| id | obligations (theorems) | stated, not proved | evaluations / distinct non-trivial (quick) | known findings | quick wall s |")
print("|---|---|---|---|---|---|")
for f in sorted(glob.glob("/verif/evidence/C??.json")):
    d = json.load(open(f)); c = d["coverage"]
    snp = c.get("stated_not_proved", [])
    kf = [k["id"] for k in c.get("known_findings_hit", [])]
    print("| %s | %s/%s | %s | %s / %s | %s | %s |" % (d["property_id"], c.get("discharged", c.get("discharged_count")), c.get("obligations"),
          "; ".join(s.split(" (")[0] for s in snp) or "–", c.get("evaluations"), c.get("distinct_nontrivial"), ", ".join(kf) or "–", d["wall_s"]))
